package engines

import (
	"fmt"
	"sort"
	"strings"

	"github.com/philhassey/goatlang"

	"goatsim/core"
)

// live decides C17: reloading swaps code in place and keeps state.

// LStep is one action of the session. Top-level steps run in order; the steps
// in Inner are delivered at the AtYield-th yield (counted over the whole
// top-level step, nested entries included) of a step that runs script code.
type LStep struct {
	Kind string `json:"kind"` // load | captureInst | captureRefs | probe | bump | main | sorted | save | repl
	// save
	Pkg  int    `json:"pkg,omitempty"`
	File int    `json:"file,omitempty"`
	Ver  int    `json:"ver,omitempty"`
	Mode string `json:"mode,omitempty"`  // atomic | torn | spliced | delete
	CutA int    `json:"cut_a,omitempty"` // per-mille of the new text kept
	CutB int    `json:"cut_b,omitempty"` // per-mille of the old text skipped
	// repl
	Ent  int    `json:"ent,omitempty"`  // redefine this entity as version 9
	Line string `json:"line,omitempty"` // or evaluate this line (bump())
	// load
	Faults []core.DiskFault `json:"faults,omitempty"` // Op relative to the load's first disk operation
	During []LDuring        `json:"during,omitempty"` // saves landing between the load's disk operations
	Final  bool             `json:"final,omitempty"`
	// script-running steps
	AtYield int     `json:"at_yield,omitempty"`
	Inner   []LStep `json:"inner,omitempty"`
}

type LDuring struct {
	AtOp int   `json:"at_op"`
	Save LStep `json:"save"`
}

type LivePlan struct {
	Seed        uint64     `json:"seed"`
	World       *LiveWorld `json:"world"`
	Rich        bool       `json:"rich_fs,omitempty"`
	Chunk       int        `json:"read_chunk,omitempty"`
	OptimizeOff bool       `json:"optimize_off,omitempty"`
	Steps       []LStep    `json:"steps"`
}

type live struct{}

func init() { core.Register(live{}) }

func (live) Property() string { return "C17" }
func (live) Name() string     { return "live" }
func (live) NewPlan() any     { return &LivePlan{} }
func (live) Units(tier string) int {
	if tier == "thorough" {
		return 2400000
	}
	return 100000
}

func (live) Describe() core.EngineInfo {
	return core.EngineInfo{
		Level: "exploration",
		Rule: "a case is one live-coding session on one VM: a generated versioned program (1-3 packages, 2-6 versions, functions (a quarter of them variadic), result-less procedures whose versions may be empty, methods (also with one parameter, also versions differing in a field operand only), variables initialised from constants, from later-declared functions, with zero or with nil (then holding a host object), empty non-nil containers, never-edited struct types whose printed shape is observed; captured function values, bound methods, struct-field functions and instances), " +
			"an editor saving entity files atomically, torn, spliced or deleting them (also between the disk operations of a running Load), reload commands (whole program, one file, one library package under equivalent spellings of its path), saves that fail at run time, and REPL redefinitions delivered at the top level or at a seeded yield inside main's loop, inside a sort comparator, or inside init of the package being loaded, " +
			"disk faults during loads, then a final clean save and reload. Judged against a version-vector reference model that is set-valued after failed, overlapping or damaged loads. " +
			"non-trivial = a torn/spliced/mixed-version snapshot was served, a disk fault fired, or a reload/REPL line landed at depth >= 1; distinct = sequence of (step kind, depth, outcome, number of entities whose version set changed)",
		Real:       []string{"goatlang loader, parser, compiler+optimizer, VM (GLOBALFUNC, GLOBALZERO, GLOBALSTRUCT, addMethod, newMethod, Yield), via New/Load/Eval/Call/Set"},
		Stubs:      []string{"os.DirFS -> SimDisk", "cli.live glue (readline, radovskyb/watcher, goroutines, liveCh) -> session drain with the same behaviour (Load on reload command, Eval otherwise, errors to a stderr sink, drain continues)", "time.Sleep -> Yield + simulated clock", "watcher polling is modelled at generation time: reload events are placed at yields after saves, duplicated, coalesced or delayed"},
		Assumes:    []string{"entities keep their names and signatures across versions; nothing is removed or re-typed", "a failed load may have applied any part of what it was served (old or served version accepted)", "overlapping loads (a reload landing inside init of a load in progress) leave either version", "a served line that is not byte-identical to a generated line makes its entity unknown until the next clean load"},
		ProbesWant: []string{"reload_ok", "reload_failed", "reload_depth_1", "reload_depth_2", "reload_depth_3", "fault:torn-save", "fault:spliced-save", "fault:mixed-version-snapshot", "fault:save-during-load", "fault:delete", "fault:save-failing-at-run-time", "obs_d", "obs_fv", "obs_bm", "obs_sf", "obs_im", "obs_iv", "obs_hv", "obs_zv", "obs_sa", "repl_redefine", "set_valued_obs", "reload_identical", "reload_single_file", "reload_library_alone", "failed_call_of_entity"},
	}
}

// --- generation --------------------------------------------------------------

func (live) genSave(r *core.PRNG, w *LiveWorld, ver int, faulty bool) LStep {
	files := w.EntFiles()
	f := core.Pick(r, files)
	s := LStep{Kind: "save", Pkg: f[0], File: f[1], Ver: ver, Mode: "atomic"}
	if faulty {
		switch r.Intn(10) {
		case 0, 1, 2:
			s.Mode, s.CutA = "torn", r.Intn(1001)
		case 3, 4:
			s.Mode, s.CutA, s.CutB = "spliced", r.Intn(1001), r.Intn(1001)
		case 5:
			s.Mode = "delete"
		case 6:
			if f[0] != 0 {
				// a complete save whose package-level code fails when it runs (not when it is compiled)
				s.Mode = "rtfail"
			}
		}
	}
	return s
}

func (e live) genReload(r *core.PRNG, w *LiveWorld, ver int, faulty bool) LStep {
	s := LStep{Kind: "load"}
	if r.Chance(1, 6) {
		s = LStep{Kind: "loadfile", File: r.Intn(w.Pkgs[0].NFiles)}
	} else if len(w.Pkgs) > 1 && r.Chance(1, 7) {
		// one library package reloaded on its own, its directory spelled in one of several equivalent ways
		s = LStep{Kind: "loadlib", Pkg: 1 + r.Intn(len(w.Pkgs)-1), Ver: r.Intn(4)}
	}
	if faulty && r.Chance(1, 6) {
		s.Faults = append(s.Faults, core.DiskFault{Op: 1 + r.Intn(25), Kind: core.Pick(r, hsDiskFaultKinds), Arg: r.Intn(80)})
	}
	if faulty && r.Chance(1, 6) {
		s.During = append(s.During, LDuring{AtOp: 1 + r.Intn(25), Save: e.genSave(r, w, ver, r.Bool())})
	}
	return s
}

func (e live) genRepl(r *core.PRNG, w *LiveWorld) LStep {
	if r.Chance(1, 3) {
		return LStep{Kind: "repl", Line: "bump()"}
	}
	var cands []int
	for _, en := range w.Ents {
		if en.Pkg == 0 && en.Kind != "zvar" && en.Kind != "bulk" {
			cands = append(cands, en.ID)
		}
	}
	if len(cands) == 0 {
		return LStep{Kind: "repl", Line: "bump()"}
	}
	return LStep{Kind: "repl", Ent: core.Pick(r, cands)}
}

func (e live) genPlan(r *core.PRNG) *LivePlan {
	w := GenLiveWorld(r)
	p := &LivePlan{Seed: r.Uint64(), World: w, Rich: r.Bool(), OptimizeOff: r.Chance(1, 4)}
	if r.Chance(1, 4) {
		p.Chunk = 1 + r.Intn(64)
	}
	faulty := r.Chance(3, 4) // swarm: a quarter of the sessions are fault-free
	nested := r.Chance(3, 4)
	replOn := r.Chance(1, 2)
	p.Steps = append(p.Steps, LStep{Kind: "load"})
	if r.Chance(3, 4) {
		p.Steps = append(p.Steps, LStep{Kind: "captureInst"})
	}
	if r.Chance(3, 4) {
		p.Steps = append(p.Steps, LStep{Kind: "captureRefs"})
	}
	p.Steps = append(p.Steps, LStep{Kind: "probe"})
	for ver := 1; ver < w.Versions; ver++ {
		// the editor saves (some of) the files of this version
		mkSaves := func() []LStep {
			var ss []LStep
			n := 1 + r.Intn(len(w.EntFiles())+1)
			for i := 0; i < n; i++ {
				ss = append(ss, e.genSave(r, w, ver, faulty))
			}
			return ss
		}
		events := mkSaves()
		nrel := 1 + r.Intn(2) // duplicates are the normal case
		if r.Chance(1, 8) {
			nrel = 0 // coalesced away; a later reload picks the changes up
		}
		for i := 0; i < nrel; i++ {
			events = append(events, e.genReload(r, w, ver, faulty))
			if r.Chance(1, 3) {
				events = append(events, mkSaves()...)
			}
		}
		if replOn && r.Chance(1, 2) {
			pos := r.Intn(len(events) + 1)
			events = append(events[:pos], append([]LStep{e.genRepl(r, w)}, events[pos:]...)...)
		}
		if r.Chance(1, 5) {
			if r.Chance(1, 4) {
				var fs []int
				for _, en := range w.Ents {
					if en.Pkg == 0 && en.Kind == "func" {
						fs = append(fs, en.ID)
					}
				}
				if len(fs) > 0 {
					events = append(events, LStep{Kind: "failcall", Ent: core.Pick(r, fs)})
				}
			} else {
				events = append(events, LStep{Kind: core.Pick(r, []string{"captureInst", "captureRefs", "bump"})})
			}
		}
		// where do these events land?
		where := 0
		if nested {
			where = r.Intn(5)
		}
		switch where {
		case 0: // between host calls
			p.Steps = append(p.Steps, events...)
			p.Steps = append(p.Steps, LStep{Kind: "probe"})
		case 1, 2: // at yields inside main's loop
			run := LStep{Kind: "main"}
			y := 1 + r.Intn(w.Loops)
			for _, ev := range events {
				if ev.Kind == "captureInst" || ev.Kind == "captureRefs" || ev.Kind == "bump" || ev.Kind == "failcall" {
					p.Steps = append(p.Steps, ev)
					continue
				}
				ev.AtYield = y
				if r.Chance(1, 3) {
					y++
				}
				// a reload may itself be interrupted: events inside init of the load
				if ev.Kind == "load" && r.Chance(1, 6) {
					in := e.genReload(r, w, ver, false)
					in.AtYield = y // the yield inside init is the next one
					run.Inner = append(run.Inner, ev, in)
					continue
				}
				run.Inner = append(run.Inner, ev)
			}
			p.Steps = append(p.Steps, run)
		case 3: // inside a sort comparator (native -> Func -> script -> Sleep -> Load)
			run := LStep{Kind: "sorted"}
			y := 1 + r.Intn(4)
			for _, ev := range events {
				if ev.Kind == "captureInst" || ev.Kind == "captureRefs" || ev.Kind == "bump" || ev.Kind == "failcall" {
					p.Steps = append(p.Steps, ev)
					continue
				}
				ev.AtYield = y
				if r.Chance(1, 3) {
					y++
				}
				run.Inner = append(run.Inner, ev)
			}
			p.Steps = append(p.Steps, run)
		case 4: // a reload whose init is interrupted by the rest
			outer := LStep{Kind: "load"}
			for _, ev := range events {
				if ev.Kind == "captureInst" || ev.Kind == "captureRefs" || ev.Kind == "bump" || ev.Kind == "failcall" {
					continue
				}
				ev.AtYield = 1
				outer.Inner = append(outer.Inner, ev)
			}
			p.Steps = append(p.Steps, outer, LStep{Kind: "probe"})
		}
		if r.Chance(1, 4) {
			p.Steps = append(p.Steps, LStep{Kind: "probe"})
		}
	}
	// faults stop: a clean save of every file at the last version, one reload, one probe
	last := w.Versions - 1
	for _, f := range w.EntFiles() {
		p.Steps = append(p.Steps, LStep{Kind: "save", Pkg: f[0], File: f[1], Ver: last, Mode: "atomic", Final: true})
	}
	p.Steps = append(p.Steps, LStep{Kind: "load", Final: true}, LStep{Kind: "probe", Final: true})
	return p
}

func (e live) RunUnit(seed uint64, tier string, unit int, exec func(plan any) *core.Result) {
	r := core.NewPRNG(core.Mix(seed, 0xC17, uint64(unit)))
	p := e.genPlan(r)
	res := exec(p)
	if tier != "thorough" || unit%8 != 3 || !res.OK() {
		return
	}
	// sweep: the same world and schedule, with one reload's torn offset moved over
	// the whole file and landing at each yield of the first script-running step
	for cut := 0; cut <= 1000; cut += 125 {
		q := core.CloneJSON(p)
		changed := false
		var walk func(ss []LStep)
		walk = func(ss []LStep) {
			for i := range ss {
				if ss[i].Kind == "save" && !ss[i].Final && !changed {
					ss[i].Mode, ss[i].CutA, ss[i].CutB = []string{"torn", "spliced"}[(cut/125)%2], cut, 1000-cut
					changed = true
				}
				walk(ss[i].Inner)
			}
		}
		walk(q.Steps)
		if changed {
			exec(q)
		}
	}
	for y := 1; y <= p.World.Loops+1; y++ {
		q := core.CloneJSON(p)
		moved := false
		for i := range q.Steps {
			if (q.Steps[i].Kind == "main" || q.Steps[i].Kind == "sorted") && len(q.Steps[i].Inner) > 0 {
				for j := range q.Steps[i].Inner {
					q.Steps[i].Inner[j].AtYield = y
				}
				moved = true
				break
			}
		}
		if moved {
			exec(q)
		}
	}
}

// --- model ---------------------------------------------------------------------

type entState struct {
	unknown bool
	vers    map[int]bool
}

func (s *entState) String() string {
	if s.unknown {
		return "{?}"
	}
	var vs []int
	for v := range s.vers {
		vs = append(vs, v)
	}
	sort.Ints(vs)
	return fmt.Sprint(vs)
}

type served struct {
	vers    map[int]map[int]bool // entity -> versions served
	damaged map[int]bool         // entities with a damaged declaration line
	poison  bool                 // a damaged line that is not an entity declaration was served
	inits   map[int]int          // package -> init functions served
	shaky   map[int]bool         // packages hit by a disk fault: the loader may have skipped them silently
}

type activeLoad struct {
	faultFrom int
	readFrom  int
	skip      [][2]int // read-index ranges of nested loads
	nested    bool     // something else defined entities while this load was active
}

type liveRun struct {
	p     *LivePlan
	w     *LiveWorld
	h     *core.Host
	res   *core.Result
	table map[string][2]int
	infra map[string]bool

	ent      map[int]*entState
	S        int
	zvals    map[int]map[int]bool // zero-initialised variables: possible current values
	libUP    map[int]int          // library package -> last value of its UP counter
	libFirst map[int]bool         // library package -> Early() reached the package's own print at its first observation
	upSeen   bool                 // early() reached the package's own print in the current probe
	upFirst  int                  // 0 = not observed yet, 1 = own print, 2 = builtin
	detached map[int]bool         // entities whose earlier captured references may have been disconnected by damaged code
	prLen    map[int]int          // print length of each type's instances at first observation
	nLo, nHi map[int]int
	instUp   bool
	refsUp   map[string]bool        // label -> captured
	hostFV   map[int]goatlang.Value // function values the HOST fetched with Get before reloads
	poisoned bool
	loads    []*activeLoad

	inProbe  bool
	seen     map[string]int
	abs      []string
	yieldN   int
	pending  []LStep
	finalOK  bool
	setObs   int
	totalObs int
}

func (live) Execute(plan any, keep bool) *core.Result {
	p := plan.(*LivePlan)
	w := p.World
	res := &core.Result{Counters: core.Counters{}}
	hist := core.NewHistory(keep)
	var files []core.DiskFile
	for pk := range w.Pkgs {
		files = append(files, core.DiskFile{Path: w.InfraPath(pk), Data: []byte(w.Infra(pk))})
	}
	for _, f := range w.EntFiles() {
		files = append(files, core.DiskFile{Path: w.EntFilePath(f[0], f[1]), Data: []byte(w.EntFile(f[0], f[1], 0))})
	}
	disk := core.NewSimDisk(files, hist)
	disk.Rich, disk.Chunk, disk.Mute = p.Rich, p.Chunk, !keep
	run := &liveRun{p: p, w: w, res: res, table: w.lineTable(), infra: map[string]bool{}, ent: map[int]*entState{},
		zvals: map[int]map[int]bool{}, prLen: map[int]int{}, libUP: map[int]int{}, libFirst: map[int]bool{}, detached: map[int]bool{}, nLo: map[int]int{}, nHi: map[int]int{}, refsUp: map[string]bool{}, seen: map[string]int{}, hostFV: map[int]goatlang.Value{}}
	for pk := range w.Pkgs {
		for _, h := range w.entHeader(pk) {
			run.infra[h] = true
		}
	}
	for i := range w.Ents {
		run.ent[w.Ents[i].ID] = &entState{vers: map[int]bool{}}
		if w.Ents[i].Kind == "zvar" {
			run.zvals[w.Ents[i].ID] = map[int]bool{0: true}
		}
	}
	run.h = core.NewHost(p.Seed, disk, hist, run.natives)
	run.h.Budget = core.MaxBudget
	run.h.OnYield = run.onYield
	goatlang.VerifOptimizeOff = p.OptimizeOff
	defer func() { goatlang.VerifOptimizeOff = false; goatlang.VerifSetBudget(-1) }()

	// a session starts with a clean load of version 0; anything else is not a case
	if len(p.Steps) == 0 || p.Steps[0].Kind != "load" || len(p.Steps[0].Faults)+len(p.Steps[0].During)+len(p.Steps[0].Inner) != 0 {
		res.Hash, res.History = hist.Hash(), hist
		return res
	}
	for i := range p.Steps {
		run.yieldN = 0
		run.pending = p.Steps[i].Inner
		run.step(&p.Steps[i], 0)
		run.pending = nil
		if i == 0 && p.Steps[0].Kind == "load" && len(p.Steps[0].Faults)+len(p.Steps[0].During)+len(p.Steps[0].Inner) == 0 && run.h.C["reload_ok"] == 0 {
			res.Fail("HARNESS", "generator", "world", "the generated world does not load: %v", run.h.Stderr)
			break
		}
		if len(run.h.Escapes) > 0 {
			break
		}
	}
	for i, esc := range run.h.Escapes {
		res.Fail("C17", "C17/no-result", "escape", "an entry point panicked instead of returning (%s) [raised at %s]", esc, run.h.EscapeSites[i])
	}
	res.Counters.Merge(run.h.C)
	res.Counters.Merge(disk.Fired.Prefixed("fault:"))
	res.Counters.Add("set_valued_obs", int64(run.setObs))
	res.Counters.Add("observations", int64(run.totalObs))
	nontriv := run.h.MaxDepth > 1
	for _, k := range res.Counters.Keys() {
		if strings.HasPrefix(k, "fault:") && res.Counters[k] > 0 {
			nontriv = true
		}
	}
	res.Nontrivial = nontriv
	res.Abstract = strings.Join(run.abs, ";")
	res.Hash = hist.Hash()
	res.SimTime = run.h.Clock
	res.Steps = len(p.Steps)
	res.History = hist
	return res
}

func (run *liveRun) natives(vm *goatlang.VM) {
	vm.Set("host.Obs", goatlang.NewFunc(3, 0, func(v *goatlang.VM, a []goatlang.Value) {
		run.obs(a[0].String(), a[1].Int(), a[2])
	}))
	vm.Set("host.Mk", goatlang.NewFunc(0, 1, func(v *goatlang.VM) goatlang.Value { return goatlang.Error(fmt.Errorf("a host object")) }))
}

func (run *liveRun) onYield(h *core.Host) {
	run.yieldN++
	y := run.yieldN
	// drain, as cli.live's closure does: every queued command, errors do not stop the drain
	for {
		idx := -1
		for i := range run.pending {
			if run.pending[i].AtYield <= y {
				idx = i
				break
			}
		}
		if idx < 0 {
			return
		}
		ev := run.pending[idx]
		run.pending = append(append([]LStep{}, run.pending[:idx]...), run.pending[idx+1:]...)
		run.step(&ev, 1)
	}
}

func (run *liveRun) fail(rule, key, format string, args ...any) {
	run.res.Fail("C17", rule, key, format, args...)
}

// step executes one step at the current nesting.
func (run *liveRun) step(s *LStep, viaYield int) {
	depth := run.h.Depth
	switch s.Kind {
	case "save":
		run.save(s)
	case "load", "loadfile", "loadlib":
		run.load(s, depth)
	case "repl":
		run.repl(s, depth)
	case "captureInst":
		if _, err := run.h.Call("main.captureInst", 0); err == nil {
			run.instUp = true
		} else {
			run.poisoned = true
		}
		run.abs = append(run.abs, "ci")
	case "captureRefs":
		if _, err := run.h.Call("main.captureRefs", 0); err == nil {
			// references captured now are connected again -- unless the entity is still in the state
			// damaged code left it in (then what was captured is whatever that code stored there)
			for id := range run.detached {
				if st := run.ent[id]; st != nil && !st.unknown {
					delete(run.detached, id)
				}
			}
			for _, id := range run.w.FV {
				run.refsUp[fmt.Sprintf("fv%d", id)] = true
				// the host keeps a reference too (an embedding program caching a callback)
				if e := run.w.ent(id); e != nil {
					run.hostFV[id] = run.h.VM.Get(run.w.Pkgs[e.Pkg].Path + "." + e.name())
				}
			}
			for _, id := range run.w.SF {
				run.refsUp[fmt.Sprintf("sf%d", id)] = true
			}
			for _, en := range run.w.Ents {
				if en.Kind == "proc" {
					run.refsUp[fmt.Sprintf("pf%d", en.ID)] = true
				}
			}
			if run.instUp {
				for _, id := range run.w.BM {
					run.refsUp[fmt.Sprintf("bm%d", id)] = true
				}
			}
		} else {
			run.poisoned = true
		}
		run.abs = append(run.abs, "cr")
	case "failcall":
		// the host calls a function of package main in a state in which it fails at run time
		if e := run.w.ent(s.Ent); e != nil && e.Pkg == 0 && e.Kind == "func" {
			if _, err := run.h.Call("main.setGF", 0, goatlang.Int(1)); err == nil {
				_, ferr := run.h.Call("main."+e.name(), 1)
				if ferr != nil {
					run.h.C.Inc("failed_call_of_entity")
				}
				run.h.Call("main.setGF", 0, goatlang.Int(0))
			}
		}
		run.abs = append(run.abs, "fc")
	case "bump":
		if _, err := run.h.Call("main.bump", 0); err == nil {
			run.bumped()
		} else {
			run.poisoned = true
		}
	case "probe", "main", "sorted":
		name := "main." + s.Kind
		_, err := run.h.Call(name, 0)
		if err != nil && !run.poisoned && !core.IsBudget(err) && !run.anyUnknown() && len(run.detached) == 0 {
			run.fail("C17/newcode", "call-failed", "calling %s failed although every entity has a loaded definition: %v", name, firstLine(err.Error()))
		}
		if s.Kind == "probe" && err == nil {
			ids := make([]int, 0, len(run.hostFV))
			for id := range run.hostFV {
				ids = append(ids, id)
			}
			sort.Ints(ids)
			for _, id := range ids {
				rets, err := run.h.Func(run.hostFV[id], 1)
				if err != nil || len(rets) != 1 {
					if !run.poisoned && !run.anyUnknown() && !core.IsBudget(err) {
						run.fail("C17/newcode", "host-value-call-failed", "Func on the function value the host fetched with Get before the reloads failed: %v", err)
					}
					continue
				}
				run.obs("hv", id, rets[0])
			}
			// package variables of function type, called by name from the host at every probe
			for _, en := range run.w.Ents {
				if en.Kind != "fvar" {
					continue
				}
				name := run.w.Pkgs[en.Pkg].Path + "." + en.name()
				rets, err := run.h.Call(name, 1)
				if err != nil || len(rets) != 1 {
					if st := run.ent[en.ID]; !run.poisoned && !run.anyUnknown() && !core.IsBudget(err) && st != nil && !st.unknown {
						run.fail("C17/newcode", "host-call-by-name-failed", "Call(%q) on a package variable of function type failed: %v", name, err)
					}
					continue
				}
				run.obs("hn", en.ID, rets[0])
			}
		}
		run.abs = append(run.abs, fmt.Sprintf("%s/%d", s.Kind, run.h.MaxDepth))
	}
}

// depUnknown: the body of an entity may call another entity; if that one is
// unknown (its declaration line was damaged) the caller's result is too.
func (run *liveRun) depUnknown(id, depth int) bool {
	e := run.w.ent(id)
	if e == nil || e.Dep == 0 || depth > 20 {
		return false
	}
	if st := run.ent[e.Dep]; st == nil || st.unknown {
		return true
	}
	return run.depUnknown(e.Dep, depth+1)
}

func (run *liveRun) anyUnknown() bool {
	for _, st := range run.ent {
		if st.unknown {
			return true
		}
	}
	return false
}

// bumped: bump() ran: S, SA and every zero-initialised variable moved on by one.
func (run *liveRun) bumped() {
	run.S++
	if len(run.loads) > 0 {
		// bump() ran while a load was in progress: whether the load had already
		// re-initialised the variable is not observable: unknown until the next clean load
		for id := range run.zvals {
			run.zvals[id] = nil
		}
		return
	}
	for id, vals := range run.zvals {
		if vals == nil {
			continue
		}
		nv := map[int]bool{}
		for v := range vals {
			nv[v+1] = true
		}
		run.zvals[id] = nv
	}
}

func cutAt(n, permille int) int {
	c := n * permille / 1000
	if c > n {
		c = n
	}
	return c
}

func (run *liveRun) save(s *LStep) {
	path := run.w.EntFilePath(s.Pkg, s.File)
	neu := []byte(run.w.EntFile(s.Pkg, s.File, s.Ver))
	old, _ := run.h.Disk.Content(path)
	switch s.Mode {
	case "torn":
		neu = neu[:cutAt(len(neu), s.CutA)]
		run.h.C.Inc("fault:torn-save")
	case "spliced":
		neu = append(append([]byte{}, neu[:cutAt(len(neu), s.CutA)]...), old[cutAt(len(old), s.CutB):]...)
		run.h.C.Inc("fault:spliced-save")
	case "rtfail":
		neu = append(neu, []byte("var zzBad = []int{1}[7]\n")...)
		run.h.C.Inc("fault:save-failing-at-run-time")
	case "delete":
		run.h.Disk.Remove(path)
		run.h.C.Inc("fault:delete")
		run.h.H.Add("editor", "delete", path)
		return
	}
	run.h.Disk.Write(path, neu)
	shown := ""
	if s.Mode != "atomic" {
		shown = fmt.Sprintf(" content=%q", neu) // damaged saves are written out: the replay must explain itself
	}
	run.h.H.Add("editor", "save", fmt.Sprintf("%s v%d %s len=%d%s", path, s.Ver, s.Mode, len(neu), shown))
}

// analyse works out, from the bytes the disk actually returned, which entity
// declarations a load was served.
func (run *liveRun) analyse(al *activeLoad) *served {
	sv := &served{vers: map[int]map[int]bool{}, damaged: map[int]bool{}, inits: map[int]int{}, shaky: map[int]bool{}}
	// A directory listing error is swallowed by fs.Glob and a file that vanished
	// between listing and open looks like "package does not exist": in both cases
	// goatlang treats the package as a native import and skips it without an
	// error. The property says nothing about that; the model accepts old or served.
	for _, fr := range run.h.Disk.FaultLog[al.faultFrom:] {
		best := -1
		for p := range run.w.Pkgs {
			dir := run.w.Pkgs[p].Path
			if fr.Path == dir || strings.HasPrefix(fr.Path, dir+"/") || strings.HasSuffix(dir, "/"+fr.Path) || strings.HasPrefix(fr.Path, "vendor/") {
				if best < 0 || len(dir) > len(run.w.Pkgs[best].Path) {
					best = p
				}
			}
		}
		if best >= 0 {
			sv.shaky[best] = true
		} else {
			for p := range run.w.Pkgs {
				sv.shaky[p] = true
			}
		}
	}
	reads := run.h.Disk.Reads
	verSeen := map[int]bool{}
	for i := al.readFrom; i < len(reads); i++ {
		skip := false
		for _, r := range al.skip {
			if i >= r[0] && i < r[1] {
				skip = true
			}
		}
		if skip {
			continue
		}
		rec := reads[i]
		pkg := -1
		isInfra := false
		for p := range run.w.Pkgs {
			if rec.Path == run.w.InfraPath(p) {
				pkg, isInfra = p, true
			}
			if strings.HasPrefix(rec.Path, run.w.Pkgs[p].Path+"/ent") {
				pkg = p
			}
		}
		if pkg < 0 {
			continue
		}
		if isInfra {
			if rec.Complete {
				sv.inits[pkg]++
			} else {
				sv.poison = true
			}
			continue
		}
		text := string(rec.Data)
		lines := strings.Split(text, "\n")
		fileDamaged := !rec.Complete
		if !strings.HasPrefix(text, strings.Join(run.w.entHeader(pkg), "\n")+"\n") {
			// the package clause (and, in package main, the imports) must head the file: without
			// it the declarations that follow belong to no package (seen in the thorough tier:
			// a splice that cut exactly the header away)
			fileDamaged = true
		}
		for li, line := range lines {
			if li == len(lines)-1 && line == "" {
				continue
			}
			complete := li < len(lines)-1 // followed by a newline
			if ev, ok := run.table[line]; ok && complete {
				if sv.vers[ev[0]] == nil {
					sv.vers[ev[0]] = map[int]bool{}
				}
				sv.vers[ev[0]][ev[1]] = true
				verSeen[ev[1]] = true
				continue
			}
			if run.infra[line] && complete {
				continue
			}
			if t := strings.TrimSpace(line); t == "" || strings.HasPrefix(t, "//") {
				continue
			}
			// a line the generator never wrote: torn or spliced
			fileDamaged = true
		}
		if fileDamaged {
			// goatlang has no statement separators: a damaged line can merge with its
			// neighbours and change what the other lines of the same file mean. Files are
			// parsed one by one, but compiled as one package: a stray `package x` clause
			// inside damaged text re-prefixes every later declaration of the package
			// (seen: `...;package l- 3 }` made lib1's init run as l.init). So damage makes
			// the whole package unpredictable; in package main that includes the probe itself.
			for _, e := range run.w.Ents {
				if e.Pkg == pkg {
					sv.damaged[e.ID] = true
				}
			}
			sv.shaky[pkg] = true
			if pkg == 0 {
				sv.poison = true
			}
		}
	}
	if len(verSeen) > 1 {
		run.h.C.Inc("fault:mixed-version-snapshot")
	}
	return sv
}

func (run *liveRun) load(s *LStep, depth int) {
	d := run.h.Disk
	al := &activeLoad{readFrom: len(d.Reads), faultFrom: len(d.FaultLog)}
	for _, outer := range run.loads {
		outer.nested = true
	}
	run.loads = append(run.loads, al)
	base := d.Ops
	for _, f := range s.Faults {
		d.Faults = append(d.Faults, core.DiskFault{Op: base + f.Op, Kind: f.Kind, Arg: f.Arg})
	}
	for _, du := range s.During {
		path := run.w.EntFilePath(du.Save.Pkg, du.Save.File)
		neu := []byte(run.w.EntFile(du.Save.Pkg, du.Save.File, du.Save.Ver))
		if du.Save.Mode == "torn" {
			neu = neu[:cutAt(len(neu), du.Save.CutA)]
		}
		d.Edits = append(d.Edits, core.DiskEdit{AtOp: base + du.AtOp, Path: path, Data: neu, Delete: du.Save.Mode == "delete", InPlace: du.Save.Mode == "spliced"})
	}
	editsBefore := d.Fired["edit"]
	arg := "main"
	if s.Kind == "loadfile" && s.Pkg == 0 && s.File < run.w.Pkgs[0].NFiles {
		// one file of package main, loaded on its own (Load's file form)
		arg = run.w.EntFilePath(0, s.File)
		run.h.C.Inc("reload_single_file")
	}
	if s.Kind == "loadlib" && s.Pkg > 0 && s.Pkg < len(run.w.Pkgs) {
		lp := run.w.Pkgs[s.Pkg].Path
		arg = []string{lp, "./" + lp, "x/../" + lp, lp + "/."}[s.Ver%4]
		run.h.C.Inc("reload_library_alone")
	}
	err := run.h.Load(arg)
	opsAtEnd := d.Ops
	if d.Fired["edit"] > editsBefore {
		run.h.C.Add("fault:save-during-load", d.Fired["edit"]-editsBefore)
	}
	// faults and edits planned for this load but not reached must not fire later
	d.Faults, d.Edits = nil, nil
	run.loads = run.loads[:len(run.loads)-1]
	for _, outer := range run.loads {
		outer.skip = append(outer.skip, [2]int{al.readFrom, len(d.Reads)})
	}
	sv := run.analyse(al)
	for _, du := range s.During {
		if base+du.AtOp <= opsAtEnd {
			// the editor changed this package's directory while the loader was walking it: a file
			// that vanishes between listing and open makes goatlang skip the whole package silently
			sv.shaky[du.Save.Pkg] = true
		}
	}
	if err == nil && !al.nested && opsAtEnd == base && !run.poisoned {
		// a Load that reports success without a single disk operation (no listing, stat, open or
		// read) cannot know the current source, whatever it caches
		run.fail("C17/newcode", "load-read-nothing", "Load(%q) returned nil without touching the disk: it cannot have reloaded anything", arg)
	}
	changed := 0
	clean := err == nil && !al.nested && !sv.poison
	for id, vs := range sv.vers {
		st := run.ent[id]
		before := st.String()
		if e := run.w.ent(id); clean && !sv.damaged[id] && len(vs) == 1 && e != nil && !sv.shaky[e.Pkg] {
			st.unknown, st.vers = false, map[int]bool{}
		}
		for v := range vs {
			st.vers[v] = true
		}
		if st.String() != before {
			changed++
		}
	}
	for id := range sv.damaged {
		run.ent[id].unknown = true
		// damaged text that runs is arbitrary code: it can store something else under an entity's
		// name (seen: a splice `var I5 = F3= F3() - 3 + 5`), after which a reference captured
		// earlier is no longer connected to the name; such references are not judged until they
		// are captured again
		run.detached[id] = true
		changed++
	}
	// a variable initialised from a function takes the version that function has NOW (the
	// function's own line may not have been served: torn away, or another file)
	for id := range sv.vers {
		e := run.w.ent(id)
		if e == nil || e.Kind != "ivar" || e.Dep == 0 {
			continue
		}
		d := run.w.ent(e.Dep)
		if d == nil || d.Pkg != e.Pkg || d.File != e.File || d.Kind != "func" {
			continue
		}
		ds, st := run.ent[d.ID], run.ent[id]
		if clean && !sv.damaged[id] && !sv.shaky[e.Pkg] {
			st.unknown, st.vers = ds.unknown, map[int]bool{}
		}
		st.unknown = st.unknown || ds.unknown
		for v := range ds.vers {
			st.vers[v] = true
		}
	}
	for id, vs := range sv.vers {
		if vals, ok := run.zvals[id]; ok && len(vs) > 0 {
			_ = vals
			e := run.w.ent(id)
			if clean && !sv.damaged[id] && e != nil && !sv.shaky[e.Pkg] {
				run.zvals[id] = map[int]bool{0: true} // re-initialised
			} else if vals != nil {
				vals[0] = true // the load may or may not have reached the declaration
			}
		}
	}
	if sv.poison && err == nil {
		// the VM accepted text the generator never wrote and that is not an
		// entity declaration: nothing can be predicted any more
		run.poisoned = true
		run.h.C.Inc("poisoned_runs")
	}
	for p, n := range sv.inits {
		if clean && !sv.shaky[p] {
			run.nLo[p] += n
		}
		run.nHi[p] += n
	}
	out := "ok"
	if err != nil {
		out = "fail"
		run.h.Stderr = append(run.h.Stderr, err.Error())
		run.h.C.Inc("reload_failed")
		if m := stageRe.FindStringSubmatch(err.Error()); m != nil {
			run.h.C.Inc("reload_failed_" + m[1])
		}
	} else {
		run.h.C.Inc("reload_ok")
		if changed == 0 {
			run.h.C.Inc("reload_identical")
		}
	}
	run.h.C.Inc(fmt.Sprintf("reload_depth_%d", depth))
	if s.Final {
		run.finalOK = err == nil
		if err != nil && !run.poisoned {
			run.fail("C17/liveness", "final-reload", "after the last fault, a clean save of every file at one version and a reload from the top level: Load failed: %s", firstLine(err.Error()))
		}
	}
	run.abs = append(run.abs, fmt.Sprintf("L%d%s%d", depth, out, changed))
}

func (run *liveRun) repl(s *LStep, depth int) {
	line := s.Line
	var e *LEnt
	if s.Ent != 0 {
		e = run.w.ent(s.Ent)
		if e == nil || e.Pkg != 0 {
			return
		}
		switch e.Kind {
		case "ivar":
			line = fmt.Sprintf("%s = %d", e.name(), tag(9, e.ID))
		default:
			l := run.w.EntLine(e, 9)
			line = l[:strings.Index(l, " //@")]
		}
	}
	for _, outer := range run.loads {
		outer.nested = true
	}
	_, err := run.h.Eval("stdin", line)
	run.h.C.Inc(fmt.Sprintf("repl_depth_%d", depth))
	if e != nil {
		st := run.ent[e.ID]
		if err == nil && len(run.loads) == 0 {
			st.unknown, st.vers = false, map[int]bool{9: true}
		} else {
			st.vers[9] = true
		}
		run.h.C.Inc("repl_redefine")
	} else if err == nil {
		run.bumped()
	} else if !core.IsBudget(err) && !run.poisoned {
		run.fail("C17/keep", "repl-call", "bump() evaluated by the REPL failed: %s", firstLine(err.Error()))
	}
	if err != nil {
		run.h.Stderr = append(run.h.Stderr, err.Error())
	}
	run.abs = append(run.abs, fmt.Sprintf("R%d", depth))
}

// obs judges one observation at the instant it is made.
func (run *liveRun) obs(kind string, id int, val goatlang.Value) {
	v := val.Int()
	run.h.H.Add("script", "obs", fmt.Sprintf("%s %d = %d", kind, id, v))
	run.totalObs++
	switch kind {
	case "begin":
		run.inProbe = true
		run.seen = map[string]int{}
		return
	case "end":
		run.inProbe = false
		run.checkComplete()
		return
	}
	run.seen[fmt.Sprintf("%s%d", kind, id)]++
	run.h.C.Inc("obs_" + kind)
	if run.poisoned || len(run.loads) > 0 {
		return
	}
	switch kind {
	case "d", "fv", "bm", "sf", "im", "iv", "hv", "hn":
		if run.detached[id] && kind != "d" && kind != "iv" && kind != "im" {
			run.setObs++
			return
		}
		st := run.ent[id]
		if st == nil || st.unknown || run.depUnknown(id, 0) {
			run.setObs++
			return
		}
		if len(st.vers) > 1 {
			run.setObs++
		}
		ver := (v - id) / 1000
		if v != tag(ver, id) || !st.vers[ver] {
			rule := "C17/newcode"
			what := map[string]string{"d": "a direct call", "fv": "a function value captured before the reload", "bm": "a bound method captured before the reload", "sf": "a function stored in a struct field before the reload", "im": "a method call on an instance created before the reload", "iv": "a variable declared with an initialiser", "hv": "a function value fetched by the host with Get before the reload, called with Func", "hn": "the host's Call by name of a package variable of function type"}[kind]
			if kind == "iv" {
				rule = "C17/reinit"
			}
			run.fail(rule, kind, "%s of entity %d reports %d (version %d), but the versions it may have after the loads so far are %s", what, id, v, ver, st)
		}
	case "pc", "pf":
		if run.detached[id] && kind == "pf" {
			run.setObs++
			return
		}
		st := run.ent[id]
		e := run.w.ent(id)
		if st == nil || e == nil || st.unknown {
			run.setObs++
			return
		}
		ok := false
		for ver, may := range st.vers {
			want := tag(ver, id)
			if procEmpty(e, ver) {
				want = -7
			}
			ok = ok || may && want == v
		}
		if !ok {
			how := map[string]string{"pc": "a direct call", "pf": "a call through a function value captured before the reload"}[kind]
			run.fail("C17/newcode", kind, "%s of procedure %d left %d in its variable (-7 = it did nothing), but the versions it may have after the loads so far are %s (empty body in version(s) %v)", how, id, v, st, emptyVers(e))
		}
	case "bk":
		if st := run.ent[id]; st != nil && !st.unknown && v != bulkN {
			run.fail("C17/reinit", "bulk", "initialised slice variable %d has %d elements, every version initialises it with %d", id, v, bulkN)
		}
	case "zv":
		st := run.ent[id]
		if st == nil || st.unknown {
			run.setObs++
			return
		}
		if run.zvals[id] == nil {
			run.setObs++
			return
		}
		ok := run.zvals[id][v]
		if e := run.w.ent(id); e != nil && e.Tmpl >= 4 {
			// the nil-initialised variant reports 0 (nil) or 1 (holds the object bump() stored)
			ok = false
			for c := range run.zvals[id] {
				ok = ok || (c > 0) == (v == 1)
			}
		}
		if !ok {
			run.fail("C17/reinit", "zero-initialiser", "variable %d declared with initialiser 0 (nil variant: 0 = nil, 1 = holds an object) holds %d; after the loads and %d bump() calls so far it can hold %v", id, v, run.S, keysOf(run.zvals[id]))
		}
	case "sa":
		if v != run.S {
			run.fail("C17/keep", "any-typed-state-var", "package variable SA (declared `var SA any`, no initialiser) holds %s, the script last assigned it %d", describe(val), run.S)
		}
	case "st":
		if v != run.S {
			run.fail("C17/keep", "state-var", "package variable S declared without initialiser holds %d, the script assigned it %d times", v, run.S)
		}
	case "pr":
		if first, ok := run.prLen[id]; !ok {
			run.prLen[id] = v
		} else if first != v {
			what := "a fresh instance"
			if id > 100 {
				what = "the instance created before the reloads"
			}
			run.fail("C17/keep", "print-shape", "fmt.Sprint of %s of type T%d (declared in a file that never changes) is %d bytes long, it was %d bytes at its first observation", what, id%100, v, first)
		}
	case "le":
		// the same pair in a library package: UP grows by 7 when Early() reaches the package's own print
		own := v != run.libUP[id]
		run.libUP[id] = v
		if first, seen := run.libFirst[id]; !seen {
			run.libFirst[id] = own
		} else if first != own {
			run.fail("C17/keep", "unchanged-function-rebound", "Early() { print(7) } in the never-edited file of library package %d reached %s at its first observation and reaches %s now", id, map[bool]string{true: "the package's own print", false: "the builtin print"}[first], map[bool]string{true: "the package's own print", false: "the builtin print"}[own])
		}
	case "eb":
		run.upSeen = false
	case "up":
		run.upSeen = true
	case "ee":
		// early() stands above the package's own print(): whichever print it reaches, it reaches the
		// same one after every reload of this never-edited file
		if run.upFirst == 0 {
			run.upFirst = map[bool]int{true: 1, false: 2}[run.upSeen]
		} else if (run.upFirst == 1) != run.upSeen {
			run.fail("C17/keep", "unchanged-function-rebound", "early() { print(7) } in the never-edited file reached %s at its first observation and reaches %s now", map[bool]string{true: "the package's own print", false: "the builtin print"}[run.upFirst == 1], map[bool]string{true: "the package's own print", false: "the builtin print"}[run.upSeen])
		}
	case "sn":
		want := 1
		if run.instUp {
			want = 0
		}
		if v != want {
			run.fail("C17/keep", "empty-container", "package variable %s (no initialiser; captureInst stores an empty, non-nil %s in it) compares to nil as %v, want %v", []string{"SM", "SS"}[id%2], []string{"map", "slice"}[id%2], v == 1, want == 1)
		}
	case "fa":
		if v != 10+id {
			run.fail("C17/keep", "instance-field", "field A of the instance created before the reloads holds %d, want %d", v, 10+id)
		}
	case "n":
		if v < run.nLo[id] || v > run.nHi[id] {
			run.fail("C17/keep", "init-counter", "init counter of package %d is %d, but init was served between %d and %d times", id, v, run.nLo[id], run.nHi[id])
		}
	}
}

func emptyVers(e *LEnt) []int {
	var out []int
	for v := 0; v < 9; v++ {
		if procEmpty(e, v) {
			out = append(out, v)
		}
	}
	return out
}

func keysOf(m map[int]bool) []int {
	var ks []int
	for k := range m {
		ks = append(ks, k)
	}
	sort.Ints(ks)
	return ks
}

// checkComplete: a probe must have reported every entity, and every captured
// reference and instance that the model says exists (a holder variable that
// went back to nil would otherwise silently skip its observation).
func (run *liveRun) checkComplete() {
	if run.poisoned || len(run.loads) > 0 {
		return
	}
	need := func(label, what string) {
		if run.seen[label] != 1 {
			run.fail("C17/keep", "lost-"+what, "probe made %d observations of %s; the %s captured earlier must still be there", run.seen[label], label, what)
		}
	}
	for _, e := range run.w.Ents {
		switch e.Kind {
		case "func":
			need(fmt.Sprintf("d%d", e.ID), "function")
		case "ivar":
			need(fmt.Sprintf("iv%d", e.ID), "variable")
		case "zvar":
			need(fmt.Sprintf("zv%d", e.ID), "variable")
		case "bulk":
			need(fmt.Sprintf("bk%d", e.ID), "variable")
		case "proc":
			need(fmt.Sprintf("pc%d", e.ID), "function")
		case "fvar":
			need(fmt.Sprintf("d%d", e.ID), "variable")
		case "method":
			if run.instUp {
				need(fmt.Sprintf("im%d", e.ID), "instance")
			}
		}
	}
	for l, up := range run.refsUp {
		if up {
			need(l, "reference")
		}
	}
	if run.instUp {
		for t := 1; t <= run.w.Types; t++ {
			need(fmt.Sprintf("fa%d", t), "instance")
		}
	}
}

// --- minimisation --------------------------------------------------------------

func (live) Shrink(plan any) []func() any {
	p := plan.(*LivePlan)
	var out []func() any
	mod := func(f func(q *LivePlan)) {
		out = append(out, func() any {
			q := core.CloneJSON(p)
			f(q)
			return q
		})
	}
	for _, c := range core.DropChunks(p.Steps, 1) {
		c := c
		mod(func(q *LivePlan) { q.Steps = c })
	}
	for i := range p.Steps {
		i := i
		s := p.Steps[i]
		for _, c := range core.DropChunks(s.Inner, 0) {
			c := c
			mod(func(q *LivePlan) { q.Steps[i].Inner = c })
		}
		if len(s.Inner) > 0 {
			// lift inner events to the top level
			mod(func(q *LivePlan) {
				in := q.Steps[i].Inner
				q.Steps[i].Inner = nil
				rest := append([]LStep{}, q.Steps[i+1:]...)
				q.Steps = append(append(q.Steps[:i+1], in...), rest...)
			})
		}
		if len(s.Faults) > 0 {
			mod(func(q *LivePlan) { q.Steps[i].Faults = nil })
		}
		if len(s.During) > 0 {
			mod(func(q *LivePlan) { q.Steps[i].During = nil })
		}
		if s.Kind == "save" && s.Mode != "atomic" {
			mod(func(q *LivePlan) { q.Steps[i].Mode = "atomic" })
		}
		for j := range s.Inner {
			j := j
			in := s.Inner[j]
			if in.Kind == "save" && in.Mode != "atomic" {
				mod(func(q *LivePlan) { q.Steps[i].Inner[j].Mode = "atomic" })
			}
			if in.AtYield > 1 {
				mod(func(q *LivePlan) { q.Steps[i].Inner[j].AtYield = 1 })
			}
			if len(in.Faults) > 0 || len(in.During) > 0 {
				mod(func(q *LivePlan) { q.Steps[i].Inner[j].Faults, q.Steps[i].Inner[j].During = nil, nil })
			}
		}
	}
	// the world: fewer entities, holders, packages' files
	for _, c := range core.DropChunks(p.World.Ents, 1) {
		c := c
		mod(func(q *LivePlan) {
			q.World.Ents = c
			keep := map[int]bool{}
			for _, e := range c {
				keep[e.ID] = true
			}
			filter := func(xs []int) []int {
				var o []int
				for _, x := range xs {
					if keep[x] {
						o = append(o, x)
					}
				}
				return o
			}
			q.World.FV, q.World.SF, q.World.BM = filter(q.World.FV), filter(q.World.SF), filter(q.World.BM)
			for i := range q.World.Ents {
				if !keep[q.World.Ents[i].Dep] {
					q.World.Ents[i].Dep = 0
				}
			}
		})
	}
	for _, name := range []string{"FV", "SF", "BM"} {
		name := name
		mod(func(q *LivePlan) {
			switch name {
			case "FV":
				q.World.FV = nil
			case "SF":
				q.World.SF = nil
			default:
				q.World.BM = nil
			}
		})
	}
	if p.World.Loops > 1 {
		mod(func(q *LivePlan) { q.World.Loops = 1 })
	}
	if p.Rich {
		mod(func(q *LivePlan) { q.Rich = false })
	}
	if p.Chunk != 0 {
		mod(func(q *LivePlan) { q.Chunk = 0 })
	}
	if p.OptimizeOff {
		mod(func(q *LivePlan) { q.OptimizeOff = false })
	}
	return out
}
