package engines

import (
	"fmt"
	"regexp"
	"strings"

	"goatsim/core"
)

// A live world is a small program in several versions whose function, method
// and initialised-variable declarations ("entities") each occupy exactly one
// source line ending in a machine-readable trailer //@<id>v<version>. Every
// body of version v of entity e evaluates to tag(v,e) = v*1000+e, whatever the
// versions of the entities it calls. Everything else (types, state variables,
// capture/probe/main functions) lives in "infra" files that are identical in
// all versions and are never edited.

type LEnt struct {
	ID       int    `json:"id"`   // 1..999, unique
	Kind     string `json:"kind"` // func | method | ivar
	Pkg      int    `json:"pkg"`
	File     int    `json:"file"` // entity file index within the package
	Recv     int    `json:"recv,omitempty"`
	Tmpl     int    `json:"tmpl"`
	Dep      int    `json:"dep,omitempty"`      // id of an entity its body calls (0 = none)
	Variadic bool   `json:"variadic,omitempty"` // func: declared func F(xs ...int) int
}

type LPkgDesc struct {
	Path   string `json:"path"`
	NFiles int    `json:"n_files"`
}

type LiveWorld struct {
	Pkgs     []LPkgDesc `json:"pkgs"` // [0] is main
	Ents     []LEnt     `json:"ents"`
	Types    int        `json:"types"` // struct types T1..Tn in main
	Versions int        `json:"versions"`
	Loops    int        `json:"loops"`
	FV       []int      `json:"fv,omitempty"` // entity ids (funcs) captured as function values
	SF       []int      `json:"sf,omitempty"` // entity ids (funcs) stored in a struct field
	BM       []int      `json:"bm,omitempty"` // entity ids (methods) captured as bound methods
}

func tag(v, e int) int { return v*1000 + e }

const bulkN = 90

func (w *LiveWorld) ent(id int) *LEnt {
	for i := range w.Ents {
		if w.Ents[i].ID == id {
			return &w.Ents[i]
		}
	}
	return nil
}

func (w *LiveWorld) pkgAlias(p int) string { return alias(w.Pkgs[p].Path) }

func (e *LEnt) name() string {
	switch e.Kind {
	case "method":
		return fmt.Sprintf("m%d", e.ID)
	case "ivar":
		return fmt.Sprintf("I%d", e.ID)
	case "zvar":
		return fmt.Sprintf("Z%d", e.ID)
	case "bulk":
		return fmt.Sprintf("BK%d", e.ID)
	case "proc":
		return fmt.Sprintf("P%d", e.ID)
	case "fvar":
		return fmt.Sprintf("OT%d", e.ID)
	}
	return fmt.Sprintf("F%d", e.ID)
}

// ref is how code in package from refers to entity e.
func (w *LiveWorld) ref(e *LEnt, from int) string {
	if e.Pkg == from {
		return e.name()
	}
	return w.pkgAlias(e.Pkg) + "." + e.name()
}

// procEmpty: version v of proc entity e has an empty body.
func procEmpty(e *LEnt, v int) bool { return v != 9 && (e.Tmpl+v)%3 == 2 }

// EntLine is the one source line declaring entity e at version v.
func (w *LiveWorld) EntLine(e *LEnt, v int) string {
	t := tag(v, e.ID)
	trailer := fmt.Sprintf(" //@%dv%d", e.ID, v)
	if e.Kind == "ivar" && e.Dep != 0 {
		// initialised from a function declared LATER in the same file: declarations are
		// hoisted, so the initialiser sees this version's function
		if d := w.ent(e.Dep); d != nil && d.Pkg == e.Pkg && d.File == e.File && d.Kind == "func" {
			return fmt.Sprintf("var %s = %s() - %d + %d%s", e.name(), d.name(), d.ID, e.ID, trailer)
		}
	}
	if e.Kind == "ivar" {
		if e.Tmpl%2 == 1 {
			return fmt.Sprintf("var %s int = %d%s", e.name(), t, trailer) // typed declaration with initialiser
		}
		return fmt.Sprintf("var %s = %d%s", e.name(), t, trailer)
	}
	if e.Kind == "fvar" {
		// a package variable of function type, initialised with a function literal: every load makes
		// a new function value; scripts and the host's Call by name must both reach it
		return fmt.Sprintf("var %s = func() int { return %d }%s", e.name(), t, trailer)
	}
	if e.Kind == "proc" {
		// a function without result that records its version in a package variable of the
		// (never edited) infra file; some versions switch it off: the body is empty
		if procEmpty(e, v) {
			return fmt.Sprintf("func %s() { }%s", e.name(), trailer)
		}
		return fmt.Sprintf("func %s() { PV%d = %d }%s", e.name(), e.ID, t, trailer)
	}
	if e.Kind == "bulk" {
		// many string literals that are new in every version: each is a new key of the
		// VM's table of globals, so a reload makes that table grow
		var lits []string
		for i := 0; i < bulkN; i++ {
			lits = append(lits, fmt.Sprintf("\"b%dv%dn%d\"", e.ID, v, i))
		}
		return fmt.Sprintf("var %s = []string{%s}%s", e.name(), strings.Join(lits, ", "), trailer)
	}
	if e.Kind == "zvar" && e.Tmpl >= 4 {
		// initialised to nil in every version; bump() stores a host object in it: a reload must
		// bring it back to a nil that the script sees as nil
		return fmt.Sprintf("var %s any = nil%s", e.name(), trailer)
	}
	if e.Kind == "zvar" {
		// initialised to zero in every version: a reload must bring it back to 0
		if e.Tmpl%2 == 1 {
			return fmt.Sprintf("var %s = 0%s", e.name(), trailer)
		}
		return fmt.Sprintf("var %s int = 0%s", e.name(), trailer)
	}
	var body string
	dep := ""
	if e.Dep != 0 {
		if d := w.ent(e.Dep); d != nil && (d.Pkg == e.Pkg || e.Pkg == 0) && d.Kind == "func" {
			dep = w.ref(d, e.Pkg)
		}
	}
	sel := (e.Tmpl + v) % 5
	if v == 9 {
		sel = 0 // REPL redefinitions are evaluated without the package's imports
	}
	switch sel {
	case 0:
		body = fmt.Sprintf("return %d", t)
	case 1:
		body = fmt.Sprintf("x := %d; return x", t)
	case 2:
		body = fmt.Sprintf("s := 0; for i := 0; i < 3; i++ { s += i }; return %d + s - 3", t)
	case 3:
		body = fmt.Sprintf("if %d > 0 { return %d }; return 0", t, t)
	default:
		if dep != "" {
			body = fmt.Sprintf("return %s() - %s() + %d", dep, dep, t)
		} else {
			body = fmt.Sprintf("a, b := %d, 1; return a*b", t)
		}
	}
	if e.Kind == "method" && e.Tmpl == 4 {
		// versions that differ in nothing but the field read (same opcodes, same first operands)
		return fmt.Sprintf("func (t *T%d) %s() int { return t.W%d + %d }%s", e.Recv, e.name(), v, e.ID, trailer)
	}
	if e.Kind == "method" && e.Tmpl == 3 {
		// a method with exactly one parameter besides the receiver
		return fmt.Sprintf("func (t *T%d) %s(x int) int { return %d + x - x }%s", e.Recv, e.name(), t, trailer)
	}
	if e.Kind == "method" {
		if (e.Tmpl+v)%2 == 0 || v == 9 {
			body = fmt.Sprintf("return %d + t.A - t.A", t)
		}
		return fmt.Sprintf("func (t *T%d) %s() int { %s }%s", e.Recv, e.name(), body, trailer)
	}
	if e.Pkg == 0 && v != 9 {
		// functions of package main fail at run time while the host has set GF (a "failcall" step):
		// a call that ended in an error must not change how later reloads treat the function
		body = "if GF > 0 { GF = GF / (GF - GF) }; " + body
	}
	if e.Variadic {
		return fmt.Sprintf("func %s(xs ...int) int { %s }%s", e.name(), body, trailer)
	}
	return fmt.Sprintf("func %s() int { %s }%s", e.name(), body, trailer)
}

// marg is the argument list of a call of method entity e.
func marg(e *LEnt) string {
	if e.Kind == "method" && e.Tmpl == 3 {
		return "4"
	}
	return ""
}

// ftype is the Go type of a captured function value of entity id.
func (w *LiveWorld) ftype(id int) string {
	if e := w.ent(id); e != nil && e.Variadic {
		return "func(...int) int"
	}
	return "func() int"
}

func (w *LiveWorld) entFileName(pkg, file int) string { return fmt.Sprintf("ent%d.go", file) }

// EntFilePath / InfraPath are the disk locations.
func (w *LiveWorld) EntFilePath(pkg, file int) string {
	return w.Pkgs[pkg].Path + "/" + w.entFileName(pkg, file)
}
func (w *LiveWorld) InfraPath(pkg int) string { return w.Pkgs[pkg].Path + "/infra.go" }

func (w *LiveWorld) pkgClause(pkg int) string { return "package " + alias(w.Pkgs[pkg].Path) }

// EntFile is the text of one entity file with every entity at version v.
func (w *LiveWorld) EntFile(pkg, file, v int) string {
	var b strings.Builder
	for _, h := range w.entHeader(pkg) {
		b.WriteString(h + "\n")
	}
	// variables first, functions after them: a package's declaration order must not matter
	for pass := 0; pass < 2; pass++ {
		for i := range w.Ents {
			e := &w.Ents[i]
			isVar := e.Kind == "ivar" || e.Kind == "zvar" || e.Kind == "bulk" || e.Kind == "fvar"
			if e.Pkg == pkg && e.File == file && isVar == (pass == 0) {
				b.WriteString(w.EntLine(e, v) + "\n")
			}
		}
	}
	return b.String()
}

// entHeader: the version-independent first lines of an entity file. Files of package main
// import the libraries themselves, so that one file can also be (re)loaded on its own.
func (w *LiveWorld) entHeader(pkg int) []string {
	h := []string{w.pkgClause(pkg)}
	if pkg == 0 {
		for p := 1; p < len(w.Pkgs); p++ {
			h = append(h, fmt.Sprintf("import %q", w.Pkgs[p].Path))
		}
	}
	return h
}

// Infra is the version-independent file of a package.
func (w *LiveWorld) Infra(pkg int) string {
	var b strings.Builder
	ln := func(f string, a ...any) { fmt.Fprintf(&b, f+"\n", a...) }
	ln(w.pkgClause(pkg))
	for i := range w.Ents {
		if e := &w.Ents[i]; e.Kind == "proc" && e.Pkg == pkg {
			ln("var PV%d int", e.ID)
			ln("func RPV%d() { PV%d = -7 }", e.ID, e.ID) // (goatlang cannot assign to another package's variable)
		}
	}
	if pkg != 0 {
		ln("var UP int")
		ln("func Early() { print(7) }") // above the package's own print, as in package main
		ln("func print(a int) { UP = UP + a }")
		ln("var N int")
		ln("func init() { N = N + 1 }")
		return b.String()
	}
	ln(`import "host"`)
	ln(`import "time"`)
	ln(`import "fmt"`)
	ln(`import "golang.org/x/exp/slices"`)
	for p := 1; p < len(w.Pkgs); p++ {
		ln("import %q", w.Pkgs[p].Path)
	}
	for t := 1; t <= w.Types; t++ {
		ln("type T%d struct { A int; B string; W0 int; W1 int; W2 int; W3 int; W4 int; W5 int; W6 int; W7 int; W8 int; W9 int }", t)
		ln("var P%d *T%d", t, t)
	}
	// a package function that has a builtin's name, called from a function that stands ABOVE it
	ln("func early() { print(7) }")
	ln("func print(a int) { host.Obs(\"up\", 0, a) }")
	ln("func nz(x any) int { if x == nil { return 0 }; return 1 }")
	ln("type Holder struct { F func() int }")
	ln("type HolderV struct { F func(...int) int }")
	ln("var GF int")
	ln("func setGF(v int) { GF = v }")
	if len(w.Ents)%2 == 0 {
		ln("var S int")
	} else {
		ln("var S0, S int") // a later name of a declaration list keeps its value across reloads just the same
	}
	ln("var SA any")
	ln("var SM map[string]int") // allocated by captureInst and left empty: an empty map is not a nil map
	ln("var SS []int")
	ln("var N int")
	for _, id := range w.FV {
		ln("var FV%d %s", id, w.ftype(id))
	}
	for _, id := range w.BM {
		if marg(w.ent(id)) != "" {
			ln("var BM%d func(int) int", id)
		} else {
			ln("var BM%d func() int", id)
		}
	}
	for i := range w.Ents {
		if e := &w.Ents[i]; e.Kind == "proc" {
			ln("var FP%d func()", e.ID)
		}
	}
	for _, id := range w.SF {
		ln("var H%d *%s", id, map[bool]string{false: "Holder", true: "HolderV"}[w.ent(id).Variadic])
	}
	// capture functions: instances first (bound methods need them)
	ln("func captureInst() {")
	ln("\tSM = map[string]int{}")
	ln("\tSS = []int{}")
	for t := 1; t <= w.Types; t++ {
		ln("\tP%d = &T%d{A: %d, W1: 1000, W2: 2000, W3: 3000, W4: 4000, W5: 5000, W6: 6000, W7: 7000, W8: 8000, W9: 9000}", t, t, 10+t)
	}
	ln("}")
	ln("func captureRefs() {")
	for _, id := range w.FV {
		ln("\tFV%d = %s", id, w.ref(w.ent(id), 0))
	}
	for _, id := range w.SF {
		ln("\tH%d = &%s{F: %s}", id, map[bool]string{false: "Holder", true: "HolderV"}[w.ent(id).Variadic], w.ref(w.ent(id), 0))
	}
	for _, id := range w.BM {
		e := w.ent(id)
		ln("\tif P%d != nil { BM%d = P%d.%s }", e.Recv, id, e.Recv, e.name())
	}
	for i := range w.Ents {
		if e := &w.Ents[i]; e.Kind == "proc" {
			ln("\tFP%d = %s", e.ID, w.ref(e, 0))
		}
	}
	ln("}")
	ln("func bump() {")
	ln("\tS = S + 1")
	ln("\tSA = S")
	for i := range w.Ents {
		if e := &w.Ents[i]; e.Kind == "zvar" && e.Tmpl >= 4 {
			ln("\t%s = host.Mk()", w.ref(e, 0))
		} else if e.Kind == "zvar" {
			ln("\t%s = %s + 1", w.ref(e, 0), w.ref(e, 0))
		}
	}
	ln("}")
	ln("func probe() {")
	ln("\thost.Obs(\"begin\", 0, 0)")
	for i := range w.Ents {
		e := &w.Ents[i]
		switch e.Kind {
		case "fvar":
			ln("\thost.Obs(\"d\", %d, %s())", e.ID, w.ref(e, 0))
		case "func":
			ln("\thost.Obs(\"d\", %d, %s(%s))", e.ID, w.ref(e, 0), map[bool]string{false: "", true: "7, 8"}[e.Variadic && e.ID%2 == 0])
		case "ivar":
			ln("\thost.Obs(\"iv\", %d, %s)", e.ID, w.ref(e, 0))
		case "zvar":
			if e.Tmpl >= 4 {
				ln("\thost.Obs(\"zv\", %d, nz(%s))", e.ID, w.ref(e, 0))
			} else {
				ln("\thost.Obs(\"zv\", %d, %s)", e.ID, w.ref(e, 0))
			}
		case "bulk":
			ln("\thost.Obs(\"bk\", %d, len(%s))", e.ID, w.ref(e, 0))
		case "proc":
			pv, reset := fmt.Sprintf("PV%d", e.ID), fmt.Sprintf("RPV%d()", e.ID)
			if e.Pkg != 0 {
				pv, reset = w.pkgAlias(e.Pkg)+"."+pv, w.pkgAlias(e.Pkg)+"."+reset
			}
			ln("\t%s", reset)
			ln("\t%s()", w.ref(e, 0))
			ln("\thost.Obs(\"pc\", %d, %s)", e.ID, pv)
			ln("\tif FP%d != nil {", e.ID)
			ln("\t\t%s", reset)
			ln("\t\tFP%d()", e.ID)
			ln("\t\thost.Obs(\"pf\", %d, %s)", e.ID, pv)
			ln("\t}")
		case "method":
			ln("\tif P%d != nil { host.Obs(\"im\", %d, P%d.%s(%s)) }", e.Recv, e.ID, e.Recv, e.name(), marg(e))
		}
	}
	for _, id := range w.FV {
		ln("\tif FV%d != nil { host.Obs(\"fv\", %d, FV%d(%s)) }", id, id, id, map[bool]string{false: "", true: "5"}[w.ent(id).Variadic && id%2 == 1])
	}
	for _, id := range w.BM {
		ln("\tif BM%d != nil { host.Obs(\"bm\", %d, BM%d(%s)) }", id, id, id, marg(w.ent(id)))
	}
	for _, id := range w.SF {
		ln("\tif H%d != nil { host.Obs(\"sf\", %d, H%d.F()) }", id, id, id)
	}
	for t := 1; t <= w.Types; t++ {
		ln("\tif P%d != nil { host.Obs(\"fa\", %d, P%d.A) }", t, t, t)
		// how a value of an unchanged type prints: a fresh instance, and the instance made before the reloads
		ln("\thost.Obs(\"pr\", %d, len(fmt.Sprint(&T%d{A: 7, B: \"x\"})))", t, t)
		ln("\tif P%d != nil { host.Obs(\"pr\", %d, len(fmt.Sprint(P%d))) }", t, 100+t, t)
	}
	ln("\thost.Obs(\"eb\", 0, 0)")
	ln("\tearly()")
	ln("\thost.Obs(\"ee\", 0, 0)")
	for p := 1; p < len(w.Pkgs); p++ {
		ln("\t%s.Early()", w.pkgAlias(p))
		ln("\thost.Obs(\"le\", %d, %s.UP)", p, w.pkgAlias(p))
	}
	ln("\thost.Obs(\"st\", 0, S)")
	ln("\thost.Obs(\"sa\", 0, SA)")
	ln("\tsnm := 0")
	ln("\tif SM == nil { snm = 1 }")
	ln("\thost.Obs(\"sn\", 0, snm)")
	ln("\tsns := 0")
	ln("\tif SS == nil { sns = 1 }")
	ln("\thost.Obs(\"sn\", 1, sns)")
	ln("\thost.Obs(\"n\", 0, N)")
	for p := 1; p < len(w.Pkgs); p++ {
		ln("\thost.Obs(\"n\", %d, %s.N)", p, w.pkgAlias(p))
	}
	ln("\thost.Obs(\"end\", 0, 0)")
	ln("}")
	// main itself reads package variables after each yield: an activation that was suspended
	// while a reload landed must see the variables' current values too
	ln("func main() {")
	ln("\tfor i := 0; i < %d; i++ {", w.Loops)
	ln("\t\tprobe()")
	ln("\t\ttime.Sleep(100000000)")
	ln("\t\thost.Obs(\"st\", 0, S)")
	ln("\t\thost.Obs(\"sa\", 0, SA)")
	for i := range w.Ents {
		e := &w.Ents[i]
		if e.Pkg != 0 {
			continue
		}
		switch e.Kind {
		case "ivar":
			ln("\t\thost.Obs(\"iv\", %d, %s)", e.ID, e.name())
		case "zvar":
			if e.Tmpl >= 4 {
				ln("\t\thost.Obs(\"zv\", %d, nz(%s))", e.ID, e.name())
			} else {
				ln("\t\thost.Obs(\"zv\", %d, %s)", e.ID, e.name())
			}
		}
	}
	ln("\t}")
	ln("}")
	ln("func sorted() { arr := []int{3, 1, 2, 5, 4}; slices.SortFunc(arr, func(a, b int) bool { time.Sleep(1000000); return a < b }); probe() }")
	ln("func init() { N = N + 1; time.Sleep(1000) }")
	return b.String()
}

// NEntFiles lists (pkg,file) pairs of all entity files.
func (w *LiveWorld) EntFiles() [][2]int {
	var out [][2]int
	for p := range w.Pkgs {
		for f := 0; f < w.Pkgs[p].NFiles; f++ {
			out = append(out, [2]int{p, f})
		}
	}
	return out
}

// lineTable maps every generated entity line to (entity, version).
func (w *LiveWorld) lineTable() map[string][2]int {
	t := map[string][2]int{}
	for i := range w.Ents {
		for v := 0; v <= 9; v++ {
			t[w.EntLine(&w.Ents[i], v)] = [2]int{w.Ents[i].ID, v}
		}
	}
	return t
}

var (
	reMethod = regexp.MustCompile(`^\s*func\s*\(\s*\w+\s+\*?\s*(\w+)\s*\)\s*(\w+)\s*\(`)
	reFunc   = regexp.MustCompile(`^\s*func\s+(\w+)\s*\(`)
	reVar    = regexp.MustCompile(`^\s*var\s+(\w+)`)
)

// identify names the entity a damaged line could declare (0 = none).
func (w *LiveWorld) identify(line string, pkg int) int {
	name := ""
	if m := reMethod.FindStringSubmatch(line); m != nil {
		name = m[2]
	} else if m := reFunc.FindStringSubmatch(line); m != nil {
		name = m[1]
	} else if m := reVar.FindStringSubmatch(line); m != nil {
		name = m[1]
	}
	if name == "" {
		return 0
	}
	for i := range w.Ents {
		if w.Ents[i].Pkg == pkg && w.Ents[i].name() == name {
			return w.Ents[i].ID
		}
	}
	return -1 // declares something that is not an entity (or an infra name): poison
}

// GenLiveWorld draws a world.
func GenLiveWorld(r *core.PRNG) *LiveWorld {
	w := &LiveWorld{Versions: 2 + r.Intn(5), Loops: 2 + r.Intn(5), Types: 1 + r.Intn(2)}
	np := 1 + r.Intn(3)
	w.Pkgs = append(w.Pkgs, LPkgDesc{Path: "main", NFiles: 1 + r.Intn(3)})
	for p := 1; p < np; p++ {
		w.Pkgs = append(w.Pkgs, LPkgDesc{Path: core.Pick(r, []string{"", "", "a/", "example.com/x/"}) + fmt.Sprintf("lib%d", p), NFiles: 1 + r.Intn(2)})
	}
	id := 0
	var funcs []int
	for p := np - 1; p >= 0; p-- { // libraries first so that main's bodies can call them
		nf := 1 + r.Intn(4)
		if p == 0 {
			nf = 2 + r.Intn(5)
		}
		for i := 0; i < nf; i++ {
			id++
			e := LEnt{ID: id, Kind: "func", Pkg: p, File: r.Intn(w.Pkgs[p].NFiles), Tmpl: r.Intn(5), Variadic: r.Chance(1, 4)}
			if len(funcs) > 0 && r.Bool() {
				e.Dep = core.Pick(r, funcs)
			}
			w.Ents = append(w.Ents, e)
			funcs = append(funcs, id)
		}
		if r.Chance(1, 4) {
			id++
			w.Ents = append(w.Ents, LEnt{ID: id, Kind: "fvar", Pkg: p, File: r.Intn(w.Pkgs[p].NFiles)})
		}
		if r.Chance(1, 3) {
			id++
			w.Ents = append(w.Ents, LEnt{ID: id, Kind: "proc", Pkg: p, File: r.Intn(w.Pkgs[p].NFiles), Tmpl: r.Intn(3)})
		}
		if r.Bool() {
			id++
			iv := LEnt{ID: id, Kind: "ivar", Pkg: p, File: r.Intn(w.Pkgs[p].NFiles), Tmpl: r.Intn(4)}
			if r.Bool() {
				// from a function of the same file, if there is one
				for _, f := range w.Ents {
					if f.Kind == "func" && f.Pkg == p && f.File == iv.File {
						iv.Dep = f.ID
						break
					}
				}
			}
			w.Ents = append(w.Ents, iv)
		}
	}
	if r.Chance(1, 3) {
		id++
		w.Ents = append(w.Ents, LEnt{ID: id, Kind: "bulk", Pkg: r.Intn(np), File: 0})
	}
	if r.Bool() {
		id++
		w.Ents = append(w.Ents, LEnt{ID: id, Kind: "zvar", Pkg: 0, File: r.Intn(w.Pkgs[0].NFiles), Tmpl: r.Intn(6)})
	}
	for t := 1; t <= w.Types; t++ {
		nm := 1 + r.Intn(3)
		for i := 0; i < nm; i++ {
			id++
			e := LEnt{ID: id, Kind: "method", Pkg: 0, File: r.Intn(w.Pkgs[0].NFiles), Recv: t, Tmpl: r.Intn(5)}
			if len(funcs) > 0 && r.Bool() {
				e.Dep = core.Pick(r, funcs)
			}
			w.Ents = append(w.Ents, e)
		}
	}
	for i := range w.Ents {
		e := &w.Ents[i]
		switch e.Kind {
		case "func":
			if r.Chance(1, 2) {
				w.FV = append(w.FV, e.ID)
			}
			if r.Chance(1, 3) {
				w.SF = append(w.SF, e.ID)
			}
		case "method":
			if r.Chance(2, 3) {
				w.BM = append(w.BM, e.ID)
			}
		}
	}
	return w
}
