package engines

import (
	"fmt"
	"sort"
	"strings"

	"github.com/philhassey/goatlang"

	"goatsim/core"
)

// loader decides C15: packages initialise once each, dependencies first, for
// any import graph; decoys are ignored; vendor/ and shortened paths are
// searched; cycles and conflicting package clauses are errors.

type LSave struct {
	Pkg  int `json:"pkg"`
	File int `json:"file"`
	Ver  int `json:"ver"`
}

type LLoad struct {
	Saves  []LSave          `json:"saves,omitempty"`  // editor saves before this load (whole files)
	Entry  string           `json:"entry"`            // load | eval
	Tops   []int            `json:"tops,omitempty"`   // eval: packages imported by the evaluated text
	Lead   int              `json:"lead,omitempty"`   // eval: bit i set = a plain statement precedes the i-th import
	Faults []core.DiskFault `json:"faults,omitempty"` // Op relative to the first disk operation of the load
	During []LSaveAt        `json:"during,omitempty"` // editor saves between the load's disk operations
	NestAt int              `json:"nest_at,omitempty"`
	Tree   bool             `json:"tree_dump,omitempty"` // WithTreeDump
	Code   bool             `json:"code_dump,omitempty"` // WithCodeDump
	Nested *LLoad           `json:"nested,omitempty"`    // a reload performed when the NestAt-th marker of this load runs
}

type LSaveAt struct {
	AtOp int   `json:"at_op"`
	Save LSave `json:"save"`
}

type LoaderPlan struct {
	Seed        uint64  `json:"seed"`
	World       *LWorld `json:"world"`
	Rich        bool    `json:"rich_fs,omitempty"`
	Chunk       int     `json:"read_chunk,omitempty"`
	OptimizeOff bool    `json:"optimize_off,omitempty"`
	Loads       []LLoad `json:"loads"`
}

type loader struct{}

func init() { core.Register(loader{}) }

func (loader) Property() string { return "C15" }
func (loader) Name() string     { return "loader" }
func (loader) NewPlan() any     { return &LoaderPlan{} }

const loaderEnum = 4096 + 512 + 16 + 2 // digraphs: 4 nodes without self loops, 3/2/1 nodes with

func (loader) Units(tier string) int {
	if tier == "thorough" {
		return 1500000 + loaderEnum
	}
	return 150000
}

func (loader) Describe() core.EngineInfo {
	return core.EngineInfo{
		Level: "exploration",
		Rule: "a case is 1-3 Loads (or Evals of import lines) on one VM of a generated import graph of up to 12 script packages (random fan-in/out, 1-4 files with random names, full-path / vendor / shortened placement, native and nowhere imports, _test.go and false-constraint decoys (release, toolchain, OS and near-miss tags), imports of directories that hold only _test.go files, import paths as raw or escaped string literals, package-level block scopes, forward calls in initialisers, init functions written first, methods named init, optional cycle or conflicting package clause) " +
			"whose top-level initialisers and init functions report markers through a native; the editor may replace whole files between and during loads, disk faults may fire, a reload may be nested inside a running initialiser. " +
			"Judged per Load against the graph the disk actually served. In the thorough tier all digraphs on <= 3 nodes (with self loops) and on 4 nodes (without) are enumerated besides. " +
			"non-trivial = more than one package reachable, or a fault/edit fired, or a nested load; distinct = (reachable packages, edges, layout kinds, decoys, outcome, faults fired, nesting)",
		Real:       []string{"goatlang loader (loadPackage, loadImports, rawLoadPackage, rawLoadFile, checkConstraint, joinFiles, treeSort), parser, compiler, VM via Load/Eval"},
		Stubs:      []string{"os.DirFS -> SimDisk", "host.Mark native records the init history"},
		Assumes:    []string{"each package exists in exactly one of the searched places", "a package hit by a disk fault may be skipped silently (fs.Glob swallows listing errors; a vanished file reads as 'package does not exist'): judged relative to what was served", "intra-package order of initialisers is not judged (C16)"},
		ProbesWant: []string{"load_ok", "load_err", "cycle_rejected", "conflict_rejected", "layout_vendor", "layout_short", "decoy_test_present", "decoy_constraint_present", "nested_load", "fault:eio-open", "fault:vanish", "fault:eio-readdir", "fault:edit", "diamond", "entry_eval", "with_tree_dump", "with_code_dump"},
	}
}

func (e loader) genLoad(r *core.PRNG, w *LWorld, faulty bool, depth int) LLoad {
	l := LLoad{Entry: "load"}
	if len(w.Pkgs) > 1 && r.Chance(1, 6) {
		l.Entry = "eval"
		n := 1 + r.Intn(2)
		for i := 0; i < n; i++ {
			l.Tops = append(l.Tops, 1+r.Intn(len(w.Pkgs)-1))
		}
		l.Lead = r.Intn(4)
	}
	if w.Versions > 1 {
		n := r.Intn(4)
		for i := 0; i < n; i++ {
			p := r.Intn(len(w.Pkgs))
			l.Saves = append(l.Saves, LSave{Pkg: p, File: r.Intn(len(w.Pkgs[p].Files)), Ver: r.Intn(w.Versions)})
		}
		if faulty && r.Chance(1, 3) {
			p := r.Intn(len(w.Pkgs))
			l.During = append(l.During, LSaveAt{AtOp: 1 + r.Intn(30), Save: LSave{Pkg: p, File: r.Intn(len(w.Pkgs[p].Files)), Ver: r.Intn(w.Versions)}})
		}
	}
	if faulty && r.Chance(1, 2) {
		l.Faults = append(l.Faults, core.DiskFault{Op: 1 + r.Intn(40), Kind: core.Pick(r, hsDiskFaultKinds), Arg: r.Intn(100)})
	}
	l.Tree, l.Code = r.Chance(1, 5), r.Chance(1, 5)
	if depth == 0 && r.Chance(1, 6) {
		l.NestAt = 1 + r.Intn(8)
		n := e.genLoad(r, w, false, 1)
		n.Entry, n.Tops = "load", nil
		l.Nested = &n
	}
	return l
}

func digraph(n int, mask int, selfLoops bool) [][]int {
	edges := make([][]int, n)
	bit := 0
	for i := 0; i < n; i++ {
		for j := 0; j < n; j++ {
			if i == j && !selfLoops {
				continue
			}
			if mask>>uint(bit)&1 == 1 {
				edges[i] = append(edges[i], j)
			}
			bit++
		}
	}
	return edges
}

func (e loader) RunUnit(seed uint64, tier string, unit int, exec func(plan any) *core.Result) {
	r := core.NewPRNG(core.Mix(seed, 0xC15, uint64(unit)))
	if tier == "thorough" && unit < loaderEnum {
		// exhaustive part: every digraph of the stated sizes, plain layout
		var edges [][]int
		switch {
		case unit < 4096:
			edges = digraph(4, unit, false)
		case unit < 4096+512:
			edges = digraph(3, unit-4096, true)
		case unit < 4096+512+16:
			edges = digraph(2, unit-4096-512, true)
		default:
			edges = digraph(1, unit-4096-512-16, true)
		}
		w := GenWorld(r, WorldOpts{Edges: edges, Plain: true, Versions: 1})
		exec(&LoaderPlan{Seed: r.Uint64(), World: w, Loads: []LLoad{{Entry: "load"}}})
		return
	}
	o := WorldOpts{MaxPkgs: 1 + r.Intn(12), Versions: 1 + r.Intn(3), Decoys: r.Chance(3, 4)}
	switch r.Intn(12) {
	case 0, 1:
		o.Cyclic = true
	case 2:
		o.Conflict = true
	}
	w := GenWorld(r, o)
	p := &LoaderPlan{Seed: r.Uint64(), World: w, Rich: r.Bool(), OptimizeOff: r.Chance(1, 5)}
	if r.Chance(1, 4) {
		p.Chunk = 1 + r.Intn(50)
	}
	faulty := r.Chance(1, 2)
	n := 1 + r.Intn(3)
	for i := 0; i < n; i++ {
		p.Loads = append(p.Loads, e.genLoad(r, w, faulty, 0))
	}
	exec(p)
}

// --- execution and oracle -------------------------------------------------------

type collector struct {
	marks     []string
	readFrom  int
	faultFrom int
	skipReads [][2]int
	skipFault [][2]int
	nestAt    int
	nested    *LLoad
	depth     int
	hadNested bool
}

type loaderRun struct {
	p     *LoaderPlan
	w     *LWorld
	h     *core.Host
	res   *core.Result
	stack []*collector
	abs   []string
	byDir map[string]int
	// current version of each file on disk as last written by the editor
}

func (loader) Execute(plan any, keep bool) *core.Result {
	p := plan.(*LoaderPlan)
	res := &core.Result{Counters: core.Counters{}}
	hist := core.NewHistory(keep)
	disk := core.NewSimDisk(p.World.Snapshot(0), hist)
	disk.Rich, disk.Chunk, disk.Mute = p.Rich, p.Chunk, !keep
	run := &loaderRun{p: p, w: p.World, res: res, byDir: map[string]int{}}
	for i, pk := range p.World.Pkgs {
		run.byDir[pk.Dir] = i
	}
	run.h = core.NewHost(p.Seed, disk, hist, run.natives)
	run.h.Budget = core.MaxBudget
	goatlang.VerifOptimizeOff = p.OptimizeOff
	defer func() { goatlang.VerifOptimizeOff = false; goatlang.VerifSetBudget(-1) }()
	for i := range p.Loads {
		run.doLoad(&p.Loads[i], 0)
		if len(run.h.Escapes) > 0 {
			break
		}
	}
	for i, esc := range run.h.Escapes {
		res.Fail("C15", "C15/cycle", "panic", "Load panicked instead of returning (%s) [raised at %s]", esc, run.h.EscapeSites[i])
	}
	res.Counters.Merge(run.h.C)
	res.Counters.Merge(disk.Fired.Prefixed("fault:"))
	res.Abstract = strings.Join(run.abs, ";")
	res.Hash = hist.Hash()
	res.Steps = len(p.Loads)
	res.History = hist
	return res
}

func (run *loaderRun) natives(vm *goatlang.VM) {
	vm.Set("host.Mark", goatlang.NewFunc(1, 1, func(v *goatlang.VM, a []goatlang.Value) goatlang.Value {
		s := a[0].String()
		run.h.H.Add("script", "mark", s)
		if len(run.stack) == 0 {
			return goatlang.Int(0)
		}
		c := run.stack[len(run.stack)-1]
		c.marks = append(c.marks, s)
		if c.nested != nil && len(c.marks) == c.nestAt {
			n := c.nested
			c.nested = nil
			c.hadNested = true
			run.h.C.Inc("nested_load")
			run.doLoad(n, c.depth+1)
		}
		return goatlang.Int(0)
	}))
}

func (run *loaderRun) fileData(s LSave) (string, []byte) {
	pk := run.w.Pkgs[s.Pkg]
	f := pk.Files[s.File]
	v := s.Ver
	if v >= len(f.Vers) {
		v = len(f.Vers) - 1
	}
	return pk.Dir + "/" + f.Name, []byte(f.Vers[v].Data)
}

func (run *loaderRun) doLoad(l *LLoad, depth int) {
	d := run.h.Disk
	for _, s := range l.Saves {
		if s.Pkg < len(run.w.Pkgs) && s.File < len(run.w.Pkgs[s.Pkg].Files) {
			path, data := run.fileData(s)
			d.Write(path, data)
			run.h.H.Add("editor", "save", fmt.Sprintf("%s v%d", path, s.Ver))
		}
	}
	c := &collector{readFrom: len(d.Reads), faultFrom: len(d.FaultLog), nestAt: l.NestAt, nested: l.Nested, depth: depth}
	base := d.Ops
	d.Faults, d.Edits = nil, nil
	for _, f := range l.Faults {
		d.Faults = append(d.Faults, core.DiskFault{Op: base + f.Op, Kind: f.Kind, Arg: f.Arg})
	}
	for _, du := range l.During {
		if du.Save.Pkg < len(run.w.Pkgs) && du.Save.File < len(run.w.Pkgs[du.Save.Pkg].Files) {
			path, data := run.fileData(du.Save)
			d.Edits = append(d.Edits, core.DiskEdit{AtOp: base + du.AtOp, Path: path, Data: data})
		}
	}
	run.stack = append(run.stack, c)
	var err error
	tops := []int{0}
	if l.Entry == "eval" && len(l.Tops) > 0 {
		tops = nil
		var src []string
		for i, t := range l.Tops {
			if t > 0 && t < len(run.w.Pkgs) {
				if l.Lead&(1<<uint(i)) != 0 {
					// an import need not be the first statement of an evaluated text
					src = append(src, fmt.Sprintf("lead%d := %d", i, i))
				}
				src = append(src, fmt.Sprintf("import %q", run.w.Pkgs[t].Path))
				tops = append(tops, t)
			}
		}
		run.h.C.Inc("entry_eval")
		_, err = run.h.Eval("stdin", strings.Join(src, "; "), run.dumpOpts(l)...)
	} else {
		err = run.h.Load("main", run.dumpOpts(l)...)
	}
	run.stack = run.stack[:len(run.stack)-1]
	d.Faults, d.Edits = nil, nil
	if len(run.stack) > 0 {
		outer := run.stack[len(run.stack)-1]
		outer.skipReads = append(outer.skipReads, [2]int{c.readFrom, len(d.Reads)})
		outer.skipFault = append(outer.skipFault, [2]int{c.faultFrom, len(d.FaultLog)})
	}
	run.judge(l, c, tops, err)
}

// dumpOpts: the run options of cli's -tree and -code flags; they must not change what a load does.
func (run *loaderRun) dumpOpts(l *LLoad) []goatlang.RunOption {
	var o []goatlang.RunOption
	if l.Tree {
		run.h.C.Inc("with_tree_dump")
		o = append(o, goatlang.WithTreeDump(&core.SimWriter{Name: "tree", MaxKeep: 1}))
	}
	if l.Code {
		run.h.C.Inc("with_code_dump")
		o = append(o, goatlang.WithCodeDump(&core.SimWriter{Name: "code", MaxKeep: 1}))
	}
	return o
}

func inRanges(i int, rs [][2]int) bool {
	for _, r := range rs {
		if i >= r[0] && i < r[1] {
			return true
		}
	}
	return false
}

func (run *loaderRun) fail(rule, key, format string, args ...any) {
	run.res.Fail("C15", rule, key, format, args...)
}

func (run *loaderRun) judge(l *LLoad, c *collector, tops []int, err error) {
	w, d := run.w, run.h.Disk
	// what was served
	type fileKey struct{ p, f int }
	servedVer := map[fileKey]*LFileVer{}
	shaky := map[int]bool{}
	anyFault := false
	for i := c.faultFrom; i < len(d.FaultLog); i++ {
		if inRanges(i, c.skipFault) {
			continue
		}
		anyFault = true
		fr := d.FaultLog[i]
		hit := false
		for pi, pk := range w.Pkgs {
			// any directory the search may try for this package, or a file below its directory
			if fr.Path == pk.Dir || strings.HasPrefix(fr.Path, pk.Dir+"/") || strings.HasSuffix("vendor/"+pk.Path, fr.Path) || strings.HasSuffix(pk.Path, "/"+fr.Path) || fr.Path == pk.Path {
				shaky[pi] = true
				hit = true
			}
		}
		if !hit {
			for pi := range w.Pkgs {
				shaky[pi] = true
			}
		}
	}
	for i := c.readFrom; i < len(d.Reads); i++ {
		if inRanges(i, c.skipReads) {
			continue
		}
		rec := d.Reads[i]
		slash := strings.LastIndexByte(rec.Path, '/')
		if slash < 0 {
			continue
		}
		pi, ok := run.byDir[rec.Path[:slash]]
		if !ok {
			continue
		}
		fi := -1
		for k, f := range w.Pkgs[pi].Files {
			if f.Name == rec.Path[slash+1:] {
				fi = k
			}
		}
		if fi < 0 {
			continue
		}
		if !rec.Complete {
			shaky[pi] = true
			continue
		}
		var match *LFileVer
		for k := range w.Pkgs[pi].Files[fi].Vers {
			if w.Pkgs[pi].Files[fi].Vers[k].Data == string(rec.Data) {
				match = &w.Pkgs[pi].Files[fi].Vers[k]
				break
			}
		}
		if match == nil {
			shaky[pi] = true // bytes that are no version of the file (an edit landed in the middle of the read)
			continue
		}
		servedVer[fileKey{pi, fi}] = match
	}
	byPath := map[string]int{}
	for i, pk := range w.Pkgs {
		byPath[pk.Path] = i
	}
	// the served graph, from the tops
	reach := map[int]bool{}
	edges := map[int][]int{}
	clauses := map[int]map[string]bool{}
	var order []int
	todo := append([]int{}, tops...)
	for len(todo) > 0 {
		pi := todo[len(todo)-1]
		todo = todo[:len(todo)-1]
		if reach[pi] {
			continue
		}
		reach[pi] = true
		order = append(order, pi)
		clauses[pi] = map[string]bool{}
		for fi, f := range w.Pkgs[pi].Files {
			if f.Test || f.Excluded {
				continue
			}
			fv := servedVer[fileKey{pi, fi}]
			if fv == nil {
				continue
			}
			// package clause actually served
			for _, line := range strings.Split(fv.Data, "\n") {
				if strings.HasPrefix(line, "package ") {
					clauses[pi][strings.TrimPrefix(line, "package ")] = true
					break
				}
			}
			for _, imp := range fv.Imports {
				if qi, ok := byPath[imp]; ok {
					if !containsInt(edges[pi], qi) {
						edges[pi] = append(edges[pi], qi)
					}
					todo = append(todo, qi)
				}
			}
		}
	}
	if l.Entry == "eval" {
		// the evaluated text itself is the top; it imports the tops
		delete(reach, -1)
	}
	// does the served graph contain a cycle / a conflict?
	cyclic := false
	color := map[int]int{}
	var dfs func(int)
	dfs = func(u int) {
		color[u] = 1
		for _, v := range edges[u] {
			if color[v] == 1 {
				cyclic = true
			} else if color[v] == 0 {
				dfs(v)
			}
		}
		color[u] = 2
	}
	for _, t := range tops {
		if color[t] == 0 {
			dfs(t)
		}
	}
	conflict := false
	for _, cl := range clauses {
		if len(cl) > 1 {
			conflict = true
		}
	}
	out := "ok"
	if err != nil {
		out = "err"
		run.h.C.Inc("load_err")
	} else {
		run.h.C.Inc("load_ok")
	}
	nShaky := 0
	for pi := range reach {
		if shaky[pi] {
			nShaky++
		}
	}
	// probes
	layouts := map[string]bool{}
	decoyT, decoyC := false, false
	indeg := map[int]int{}
	for pi := range reach {
		layouts[w.Pkgs[pi].Layout] = true
		run.h.C.Inc("layout_" + w.Pkgs[pi].Layout)
		for _, f := range w.Pkgs[pi].Files {
			if f.Test {
				decoyT = true
			}
			if f.Excluded {
				decoyC = true
			}
		}
		for _, q := range edges[pi] {
			indeg[q]++
		}
	}
	if decoyT {
		run.h.C.Inc("decoy_test_present")
	}
	if decoyC {
		run.h.C.Inc("decoy_constraint_present")
	}
	for _, n := range indeg {
		if n > 1 {
			run.h.C.Inc("diamond")
			break
		}
	}
	ne := 0
	for _, es := range edges {
		ne += len(es)
	}
	var lk []string
	for k := range layouts {
		lk = append(lk, k[:1])
	}
	sort.Strings(lk)
	run.abs = append(run.abs, fmt.Sprintf("%s:d%d:n%d:e%d:%s:t%v:c%v:cy%v:cf%v:f%v:s%d:%s", l.Entry, c.depth, len(reach), ne, strings.Join(lk, ""), decoyT, decoyC, cyclic, conflict, anyFault, nShaky, out))
	if len(reach) > 1 || anyFault || c.depth > 0 || c.hadNested || d.Fired["edit"] > 0 {
		run.res.Nontrivial = true
	}

	if core.IsBudget(err) {
		return
	}
	// --- rules ---
	if cyclic || conflict {
		if cyclic {
			run.h.C.Inc("graph_cyclic")
		}
		if err == nil && nShaky == 0 {
			what := "an import cycle"
			if !cyclic {
				what = "two different package clauses in one directory"
			}
			run.fail("C15/cycle", what, "the served packages contain %s, but Load returned no error", what)
		}
		if err != nil {
			if cyclic {
				run.h.C.Inc("cycle_rejected")
			} else {
				run.h.C.Inc("conflict_rejected")
			}
		}
		return
	}
	if err != nil {
		if !anyFault && d.Fired["edit"] == 0 {
			run.fail("C15/once", "load-failed", "an acyclic, consistent tree on a healthy disk failed to load: %s", firstLine(err.Error()))
		}
		return
	}
	// Load returned nil: judge the marker history
	pos := map[string][]int{}
	for i, m := range c.marks {
		pos[m] = append(pos[m], i)
	}
	expected := map[string]int{} // marker -> package
	for pi := range reach {
		anyServed := false
		for fi, f := range w.Pkgs[pi].Files {
			fv := servedVer[fileKey{pi, fi}]
			if fv != nil {
				anyServed = true
			}
			if f.Test || f.Excluded || fv == nil {
				continue
			}
			for _, m := range fv.Marks {
				expected[m] = pi
			}
		}
		if !anyServed && !shaky[pi] && !anyFault {
			run.fail("C15/search", w.Pkgs[pi].Layout, "package %q is imported and exists at %q (%s placement), but none of its files was read", w.Pkgs[pi].Path, w.Pkgs[pi].Dir, w.Pkgs[pi].Layout)
		}
	}
	for m, pi := range expected {
		n := len(pos[m])
		if shaky[pi] {
			// the package may have been skipped; if it ran, it ran once
			if n > 1 {
				run.fail("C15/once", "twice", "marker %s ran %d times in one Load", m, n)
			}
			continue
		}
		if n != 1 {
			kind := "never"
			if n > 1 {
				kind = "twice"
			}
			run.fail("C15/once", kind, "marker %s of package %q ran %d times in one Load (want exactly once); history %v", m, w.Pkgs[pi].Path, n, clip(c.marks))
		}
	}
	for m := range pos {
		if _, ok := expected[m]; ok {
			continue
		}
		if strings.HasPrefix(m, "DECOY:") && strings.Contains(m, "/shadow.go/") {
			// a same-named package at a place searched later: it may only run when a disk fault or
			// an edit kept the loader from seeing the place searched first
			if !anyFault && d.Fired["edit"] == 0 {
				run.fail("C15/search", "later-candidate-won", "marker %s ran: a package at a directory that is searched later than the one holding the real package was loaded instead", m)
			}
			continue
		}
		if strings.HasPrefix(m, "DECOY:") {
			kind := "constraint"
			if strings.Contains(m, "_test.go/") {
				kind = "_test.go"
			}
			run.fail("C15/excluded", kind, "marker %s of an excluded file ran", m)
		} else if !anyFault && d.Fired["edit"] == 0 {
			run.fail("C15/once", "foreign", "marker %s ran, but it belongs to no file version served to this Load", m)
		}
	}
	// dependencies first
	for pi, qs := range edges {
		if shaky[pi] {
			continue
		}
		for _, qi := range qs {
			if shaky[qi] || qi == pi {
				continue
			}
			lastQ, firstP := -1, len(c.marks)
			for m, owner := range expected {
				for _, i := range pos[m] {
					if owner == qi && i > lastQ {
						lastQ = i
					}
					if owner == pi && i < firstP {
						firstP = i
					}
				}
			}
			if lastQ >= 0 && firstP < len(c.marks) && lastQ > firstP {
				run.fail("C15/deps", "order", "package %q imports %q, but %s ran before %s; history %v", w.Pkgs[pi].Path, w.Pkgs[qi].Path, c.marks[firstP], c.marks[lastQ], clip(c.marks))
			}
		}
	}
}

func clip(xs []string) []string {
	if len(xs) > 24 {
		return append(append([]string{}, xs[:24]...), "...")
	}
	return xs
}

func (loader) Shrink(plan any) []func() any {
	p := plan.(*LoaderPlan)
	var out []func() any
	mod := func(f func(q *LoaderPlan)) {
		out = append(out, func() any {
			q := core.CloneJSON(p)
			f(q)
			return q
		})
	}
	for _, c := range core.DropChunks(p.Loads, 1) {
		c := c
		mod(func(q *LoaderPlan) { q.Loads = c })
	}
	for i := range p.Loads {
		i := i
		l := p.Loads[i]
		if len(l.Faults) > 0 {
			mod(func(q *LoaderPlan) { q.Loads[i].Faults = nil })
		}
		if len(l.During) > 0 {
			mod(func(q *LoaderPlan) { q.Loads[i].During = nil })
		}
		if len(l.Saves) > 0 {
			mod(func(q *LoaderPlan) { q.Loads[i].Saves = nil })
		}
		if l.Nested != nil {
			mod(func(q *LoaderPlan) { q.Loads[i].Nested, q.Loads[i].NestAt = nil, 0 })
		}
		if l.Entry == "eval" {
			mod(func(q *LoaderPlan) { q.Loads[i].Entry, q.Loads[i].Tops = "load", nil })
		}
		if l.Tree || l.Code {
			mod(func(q *LoaderPlan) { q.Loads[i].Tree, q.Loads[i].Code = false, false })
		}
	}
	for _, c := range core.DropChunks(p.World.Ghosts, 0) {
		c := c
		mod(func(q *LoaderPlan) { q.World.Ghosts = c })
	}
	// drop trailing packages that nothing imports any more, and decoy files
	for pi := len(p.World.Pkgs) - 1; pi >= 1; pi-- {
		pi := pi
		mod(func(q *LoaderPlan) {
			gone := q.World.Pkgs[pi].Path
			q.World.Pkgs = append(q.World.Pkgs[:pi], q.World.Pkgs[pi+1:]...)
			for _, pk := range q.World.Pkgs {
				for _, f := range pk.Files {
					for vi := range f.Vers {
						fv := &f.Vers[vi]
						var keep []string
						for _, l := range strings.Split(fv.Data, "\n") {
							if strings.Contains(l, fmt.Sprintf("%q", gone)) || strings.Contains(l, fmt.Sprintf(".Use%d()", pi)) {
								continue
							}
							keep = append(keep, l)
						}
						fv.Data = strings.Join(keep, "\n")
						var imps []string
						for _, im := range fv.Imports {
							if im != gone {
								imps = append(imps, im)
							}
						}
						fv.Imports = imps
					}
				}
			}
			for li := range q.Loads {
				q.Loads[li].Saves, q.Loads[li].During, q.Loads[li].Tops = nil, nil, nil
				if q.Loads[li].Nested != nil {
					q.Loads[li].Nested.Saves, q.Loads[li].Nested.During = nil, nil
				}
				q.Loads[li].Entry = "load"
			}
		})
	}
	for pi := range p.World.Pkgs {
		pi := pi
		for fi := len(p.World.Pkgs[pi].Files) - 1; fi >= 1; fi-- {
			fi := fi
			f := p.World.Pkgs[pi].Files[fi]
			if f.Test || f.Excluded {
				mod(func(q *LoaderPlan) {
					q.World.Pkgs[pi].Files = append(q.World.Pkgs[pi].Files[:fi], q.World.Pkgs[pi].Files[fi+1:]...)
					for li := range q.Loads {
						q.Loads[li].Saves, q.Loads[li].During = nil, nil
					}
				})
			}
		}
	}
	if p.Rich {
		mod(func(q *LoaderPlan) { q.Rich = false })
	}
	if p.Chunk != 0 {
		mod(func(q *LoaderPlan) { q.Chunk = 0 })
	}
	if p.OptimizeOff {
		mod(func(q *LoaderPlan) { q.OptimizeOff = false })
	}
	return out
}
