package engines

import (
	"fmt"
	"regexp"
	"strconv"
	"strings"

	"github.com/philhassey/goatlang"

	"goatsim/core"
)

// crashpoint decides C20: a run-time error names the failing function and
// line, then one line per active call, innermost first, identically with the
// optimizer on or off. The crash point is dynamic: the k-th query the script
// makes to the host is poisoned, wherever in the call tree that happens to be.

type CPStmt struct {
	Kind   string   `json:"kind"` // site kinds, call, mcall, fcall, rec, for, range, if, switch
	Site   int      `json:"site,omitempty"`
	Target int      `json:"target,omitempty"` // callee function index
	N      int      `json:"n,omitempty"`      // loop count
	Pad    int      `json:"pad,omitempty"`    // extra leading spaces (long lines: columns beyond 255)
	Body   []CPStmt `json:"body,omitempty"`
	Else   []CPStmt `json:"else,omitempty"`
	Third  []CPStmt `json:"third,omitempty"`
}

type CPFunc struct {
	Variadic bool     `json:"variadic,omitempty"` // func f(ds ...int): d is ds[0]
	Method   bool     `json:"method,omitempty"`
	Stmts    []CPStmt `json:"stmts"`
}

type CPPlan struct {
	Seed        uint64   `json:"seed"`
	Funcs       []CPFunc `json:"funcs"`
	Depth       int      `json:"depth"`     // argument of the entry call (recursion depth)
	PoisonAt    int      `json:"poison_at"` // k-th host query is poisoned (0 = clean run)
	OptimizeOff bool     `json:"optimize_off,omitempty"`
	Entry       string   `json:"entry"` // call | eval
	Rich        bool     `json:"rich_fs,omitempty"`
	Cons        bool     `json:"constraint,omitempty"` // every file starts with a satisfied //go:build line
	PreFail     bool     `json:"pre_fail,omitempty"`   // an unrelated host call fails (two frames deep) on the same VM before the judged one
	LeadBlank   int      `json:"lead_blank,omitempty"` // blank / whitespace-only lines before the package clause of every file
	EOL         int      `json:"eol,omitempty"`   // line endings of the source files: 0 = LF, 1 = CRLF, 2 = CRLF on some lines
	LibPkg      bool     `json:"lib_pkg,omitempty"` // with Split > 0: the second file is a package of its own (package shape, imported as example.com/geo/shape)
	ManyGlobals int      `json:"many_globals,omitempty"` // names the host registers with Set before the load (the function-name table then starts beyond them)
	Split       int      `json:"split,omitempty"` // functions with index >= Split (when > 0) live in a second file of the package
}

var cpSiteKinds = []string{"helper-div", "helper-attr", "local-div", "idx-slice", "idx-string", "slice-bounds", "div", "mod", "nil-set", "nil-get", "nil-method", "nil-map", "nil-func", "panic", "native", "for-cond", "range-bad", "div-ml", "idx-ml", "nil-map-ml"}

type cpSite struct {
	Func int
	File string
	Line int
	Kind string
	Ctx  string // enclosing constructs: l(oop) i(f) s(witch)
	Col  int    // column of the statement's first character
	Lam  bool   // a function literal precedes it in the same function
}

type cpRendered struct {
	TextB      string         // second file (empty when the program is one file)
	FuncFile   []string       // file of each function
	HelperLine map[string]int // line of the single statement of each helper function
	ML         map[int]bool   // lines that open a multi-line call
	Text       string
	Sites      map[int]cpSite
	Names      []string // function display names as goatlang prints them
}

const cpLibPath, cpLibName = "example.com/geo/shape", "shape"

// inLib: function i lives in the library package.
func (p *CPPlan) inLib(i int) bool { return p.LibPkg && p.Split > 0 && i >= p.Split }

func (p *CPPlan) pkgOf(i int) string {
	if p.inLib(i) {
		return cpLibName
	}
	return "main"
}

func cpFuncName(p *CPPlan, i int, f *CPFunc) string {
	if f.Method {
		return fmt.Sprintf("%s.T.m%d", p.pkgOf(i), i)
	}
	return fmt.Sprintf("%s.f%d", p.pkgOf(i), i)
}

// cpCallExpr renders a call of function i from function `from` (cross-package calls go through
// the import's name).
func cpCallExpr(p *CPPlan, from, i int, f *CPFunc, arg string) string {
	q := ""
	if p.inLib(i) && !p.inLib(from) {
		q = cpLibName + "."
	}
	if f.Method {
		return fmt.Sprintf("%sobj.m%d(%s)", q, i, arg)
	}
	return fmt.Sprintf("%sf%d(%s)", q, i, arg)
}

const cpPrelude = `package main
import "host"
import "golang.org/x/exp/slices"
type T struct { A int }
func (t *T) get() int { return t.A }
var arr = []int{1, 2, 3}
var str = "hello"
var nilT *T
var okT = &T{A: 1}
var obj = &T{A: 2}
var nilM map[string]int
var okM = map[string]int{"a": 1}
var nilF func() int
func okF() int { return 1 }
func hdiv(a int, b int) int {
	return a / b
}
func hattr(p *T) int {
	return p.A
}
func selT(k int) *T {
	if k == 1 {
		return nilT
	}
	return okT
}
func selM(k int) map[string]int {
	if k == 1 {
		return nilM
	}
	return okM
}
func selF(k int) func() int {
	if k == 1 {
		return nilF
	}
	return okF
}
func selR(k int) any {
	if k == 1 {
		return okT
	}
	if k == 2 {
		return okF
	}
	return arr
}
func cmpLess(a int, b int) bool {
	return a < b
}
func pf1(z int) int {
	return pf2(z) + 1
}
func pf2(z int) int {
	return pf3(z) + 1
}
func pf3(z int) int {
	return 100 / z
}
`

// cpRender turns the structure into source text, one statement per line, and
// records the line of every fault site.
func cpRender(p *CPPlan) *cpRendered {
	r := &cpRendered{Sites: map[int]cpSite{}, ML: map[int]bool{}, HelperLine: map[string]int{}}
	var bA, bB strings.Builder
	b := &bA
	lead := strings.Repeat("\n", p.LeadBlank)
	if p.Seed%2 == 0 {
		lead = strings.Repeat(" \t\n", p.LeadBlank)
	}
	leadN := p.LeadBlank
	if p.Cons {
		lead = "//go:build " + []string{"goat", "goat && !linux", "!ignore"}[p.Seed%3] + "\n" + lead
		leadN++
	}
	preA := cpPrelude
	if p.LibPkg && p.Split > 0 {
		preA = strings.Replace(preA, "import \"host\"\n", "import \"host\"\nimport \""+cpLibPath+"\"\n", 1)
	}
	b.WriteString(lead + preA)
	line := leadN + strings.Count(preA, "\n")
	lineA := 0
	curFile := "main/a.go"
	for i, l := range strings.Split(preA, "\n") {
		switch strings.TrimSpace(l) {
		case "return a / b":
			r.HelperLine["main.hdiv"] = i + 1 + leadN
		case "return p.A":
			r.HelperLine["main.hattr"] = i + 1 + leadN
		}
	}
	emit := func(s string) int {
		line++
		b.WriteString(s + "\n")
		return line
	}
	for i := range p.Funcs {
		r.Names = append(r.Names, cpFuncName(p, i, &p.Funcs[i]))
	}
	var stmts func(fi int, ss []CPStmt, ind string)
	ctxOf := func(ind string) string { return strings.ReplaceAll(ind, "\t", "") }
	_ = ctxOf
	ctx := ""
	lamSeen := false
	stmts = func(fi int, ss []CPStmt, ind string) {
		for _, s := range ss {
			ind := ind + strings.Repeat(" ", s.Pad)
			site := func(text string) {
				l := emit(ind + text)
				kind := s.Kind
				if kind == "mlcall" {
					kind = "idx-in-multiline-call"
				}
				r.Sites[s.Site] = cpSite{Func: fi, File: curFile, Line: l, Kind: kind, Ctx: ctx, Col: len(ind), Lam: lamSeen}
			}
			id := s.Site
			switch s.Kind {
			case "idx-slice":
				site(fmt.Sprintf("r = r + arr[host.Idx(%d)]", id))
			case "idx-string":
				site(fmt.Sprintf("r = r + str[host.Idx(%d)]", id))
			case "slice-bounds":
				site(fmt.Sprintf("r = r + len(arr[0:host.Idx(%d)])", id))
			case "div":
				site(fmt.Sprintf("r = r + 100 / host.Den(%d)", id))
			case "mod":
				site(fmt.Sprintf("r = r + 100 %% host.Den(%d)", id))
			case "div-ml":
				// the operator ends its line, the operand that makes it fail stands on the next one:
				// the failing operation is the operator
				site(fmt.Sprintf("r = r + 100 /"))
				emit(ind + fmt.Sprintf("\thost.Den(%d)", id))
			case "idx-ml":
				site(fmt.Sprintf("r = r + arr["))
				emit(ind + fmt.Sprintf("\thost.Idx(%d)]", id))
			case "nil-map-ml":
				site(fmt.Sprintf("selM(host.Flag(%d))[\"k\"] =", id))
				emit(ind + "\t1 +")
				emit(ind + "\t2")
			case "local-div":
				// both operands plain locals: the optimizer fuses LOCALGET LOCALGET DIV
				emit(ind + fmt.Sprintf("w%d := 100", id))
				emit(ind + fmt.Sprintf("z%d := host.Den(%d)", id, id))
				site(fmt.Sprintf("r = r + w%d / z%d", id, id))
			case "lambda":
				// a function literal inside the function: later statements still belong to the function
				lamSeen = true
				emit(ind + fmt.Sprintf("lam%d := func(a int) int { return a + %d }", s.N, s.N))
				emit(ind + fmt.Sprintf("r = r + lam%d(1) - %d", s.N, s.N+1))
			case "helper-div":
				// the fault is raised by the first (fused) instruction of a helper function
				site(fmt.Sprintf("r = r + hdiv(100, host.Den(%d))", id))
			case "helper-attr":
				site(fmt.Sprintf("r = r + hattr(selT(host.Flag(%d)))", id))
			case "nil-set":
				site(fmt.Sprintf("selT(host.Flag(%d)).A = 7", id))
			case "nil-get":
				site(fmt.Sprintf("r = r + selT(host.Flag(%d)).A", id))
			case "nil-method":
				site(fmt.Sprintf("r = r + selT(host.Flag(%d)).get()", id))
			case "nil-map":
				site(fmt.Sprintf("selM(host.Flag(%d))[\"k\"] = 1", id))
			case "nil-func":
				site(fmt.Sprintf("r = r + selF(host.Flag(%d))()", id))
			case "panic":
				site(fmt.Sprintf("if host.Flag(%d) == 1 { panic(\"boom\") }", id))
			case "native":
				site(fmt.Sprintf("host.Fail(%d)", id))
			case "for-cond":
				site(fmt.Sprintf("for i := 0; i < arr[host.Idx(%d)] - 1; i++ {", id))
				ctx += "l"
				stmts(fi, s.Body, ind+"\t")
				ctx = ctx[:len(ctx)-1]
				emit(ind + "}")
			case "range-bad":
				// the operand of range is not something that can be ranged over; the body spans lines
				site(fmt.Sprintf("for _, e := range selR(host.Flag(%d) * %d) {", id, 1+id%2))
				emit(ind + "\tr = r + e")
				ctx += "l"
				stmts(fi, s.Body, ind+"\t")
				ctx = ctx[:len(ctx)-1]
				emit(ind + "\tr = r + 1")
				emit(ind + "}")
			case "sort":
				// a sort whose comparator is a function literal that calls a script function; it
				// completes, later statements fail
				lamSeen = true
				emit(ind + fmt.Sprintf("sq%d := []int{3, 1, 2, %d}", s.N, s.N))
				emit(ind + fmt.Sprintf("slices.SortFunc(sq%d, func(a, b int) bool { return cmpLess(a, b) })", s.N))
				emit(ind + fmt.Sprintf("r = r + sq%d[0] - 1", s.N))
			case "call", "mcall":
				if s.Target > fi && s.Target < len(p.Funcs) {
					emit(ind + fmt.Sprintf("host.At(%d); r = r + %s", line+1, cpCallExpr(p, fi, s.Target, &p.Funcs[s.Target], "d")))
				}
			case "mlcall":
				// a gofmt-style multi-line call: the call's line is the line of "name("
				if s.Target > fi && s.Target < len(p.Funcs) {
					open := cpCallExpr(p, fi, s.Target, &p.Funcs[s.Target], "")
					open = open[:len(open)-1] // drop ")"
					r.ML[emit(ind+fmt.Sprintf("host.At(%d); r = r + %s", line+1, open))] = true
					if s.Site != 0 {
						site(fmt.Sprintf("\td + arr[host.Idx(%d)] - 3,", id))
					} else {
						emit(ind + "\td,")
					}
					emit(ind + ")")
				}
			case "spreadcall":
				// f(xs...): the spread form of a call to a variadic function
				if s.Target > fi && s.Target < len(p.Funcs) && p.Funcs[s.Target].Variadic {
					// the marker goes on the line BEFORE the call: the previously dispatched call must
					// not share the spread call's line
					emit(ind + fmt.Sprintf("dd%d := []int{d}", line+1))
					emit(ind + fmt.Sprintf("host.At(%d)", line+2))
					emit(ind + fmt.Sprintf("r = r + %s", cpCallExpr(p, fi, s.Target, &p.Funcs[s.Target], fmt.Sprintf("dd%d...", line-1))))
				}
			case "dotcall":
				// a method call split after the dot: the call's line is the line of "m("
				if s.Target > fi && s.Target < len(p.Funcs) && p.Funcs[s.Target].Method {
					if p.inLib(s.Target) && !p.inLib(fi) {
						emit(ind + "o := " + cpLibName + ".obj")
					} else {
						emit(ind + "o := obj")
					}
					emit(ind + fmt.Sprintf("host.At(%d); r = r + o.", line+2))
					r.ML[emit(ind+fmt.Sprintf("\tm%d(d)", s.Target))] = true
				}
			case "fcall":
				if s.Target > fi && s.Target < len(p.Funcs) && !p.Funcs[s.Target].Method {
					q := ""
					if p.inLib(s.Target) && !p.inLib(fi) {
						q = cpLibName + "."
					}
					emit(ind + fmt.Sprintf("fn := %sf%d", q, s.Target))
					emit(ind + fmt.Sprintf("host.At(%d); r = r + fn(d)", line+1))
				}
			case "rec":
				emit(ind + "if d > 0 {")
				emit(ind + fmt.Sprintf("\thost.At(%d); r = r + %s", line+1, cpCallExpr(p, fi, fi, &p.Funcs[fi], "d - 1")))
				emit(ind + "}")
			case "for":
				emit(ind + fmt.Sprintf("for i := 0; i < %d; i++ {", s.N))
				ctx += "l"
				stmts(fi, s.Body, ind+"\t")
				ctx = ctx[:len(ctx)-1]
				emit(ind + "}")
			case "range":
				emit(ind + "for _, e := range arr {")
				emit(ind + "\tr = r + e")
				ctx += "l"
				stmts(fi, s.Body, ind+"\t")
				ctx = ctx[:len(ctx)-1]
				emit(ind + "}")
			case "if":
				emit(ind + "if r % 2 == 0 {")
				ctx += "i"
				stmts(fi, s.Body, ind+"\t")
				if len(s.Else) > 0 {
					emit(ind + "} else {")
					stmts(fi, s.Else, ind+"\t")
				}
				ctx = ctx[:len(ctx)-1]
				emit(ind + "}")
			case "switch":
				emit(ind + "switch r % 3 {")
				emit(ind + "case 0:")
				ctx += "s"
				stmts(fi, s.Body, ind+"\t")
				emit(ind + "case 1:")
				stmts(fi, s.Else, ind+"\t")
				emit(ind + "default:")
				stmts(fi, s.Third, ind+"\t")
				ctx = ctx[:len(ctx)-1]
				emit(ind + "}")
			}
		}
	}
	for i := range p.Funcs {
		f := &p.Funcs[i]
		if p.Split > 0 && i == p.Split {
			// the rest of the package lives in a second file with its own line numbers
			lineA = line
			b = &bB
			if p.LibPkg {
				// a package of its own, with its own copy of the prelude's types, variables and helpers
				body := strings.SplitN(cpPrelude, "\n", 4)[3]
				head := "package " + cpLibName + "\nimport \"host\"\nimport \"golang.org/x/exp/slices\"\n"
				b.WriteString(lead + head + body)
				for i, l := range strings.Split(head+body, "\n") {
					switch strings.TrimSpace(l) {
					case "return a / b":
						r.HelperLine[cpLibName+".hdiv"] = i + 1 + leadN
					case "return p.A":
						r.HelperLine[cpLibName+".hattr"] = i + 1 + leadN
					}
				}
				line = leadN + strings.Count(head+body, "\n")
				curFile = cpLibPath + "/b.go"
			} else {
				b.WriteString(lead + "package main\nimport \"host\"\nimport \"golang.org/x/exp/slices\"\n")
				line = 3 + leadN
				curFile = "main/b.go"
			}
		}
		r.FuncFile = append(r.FuncFile, curFile)
		params := "d int"
		if f.Variadic {
			params = "ds ...int"
		}
		if f.Method {
			emit(fmt.Sprintf("func (t *T) m%d(%s) int {", i, params))
		} else {
			emit(fmt.Sprintf("func f%d(%s) int {", i, params))
		}
		if f.Variadic {
			emit("\td := ds[0]")
		}
		lamSeen = false
		emit(fmt.Sprintf("\thost.Enter(%d)", i))
		emit("\tr := 0")
		stmts(i, f.Stmts, "\t")
		emit("\thost.Leave()")
		emit("\treturn r")
		emit("}")
	}
	_ = lineA
	r.Text = bA.String()
	r.TextB = bB.String()
	return r
}

type crashpoint struct{}

func init() { core.Register(crashpoint{}) }

func (crashpoint) Property() string { return "C20" }
func (crashpoint) Name() string     { return "crashpoint" }
func (crashpoint) NewPlan() any     { return &CPPlan{} }
func (crashpoint) Units(tier string) int {
	if tier == "thorough" {
		return 160000
	}
	return 2500
}

func (crashpoint) Describe() core.EngineInfo {
	return core.EngineInfo{
		Level: "fault_enumeration",
		Rule: "a unit is one generated program (2-10 functions and methods calling each other through loops, branches, switches, function values and bounded recursion, one statement per line, LF / CRLF / mixed line endings, optional leading blank lines and satisfied //go:build lines, one or two files of one package or a second package under a three-element import path, sorts with script comparators and an earlier unrelated failed host call on the same VM, a fault site per run-time fault kind); a clean run counts the K host queries it makes; then the program is re-executed once per k in 1..K with exactly the k-th query poisoned " +
			"(out-of-range index, zero divisor, nil struct/map/function selector, panic flag, failing native), each with the optimizer on and off, entered through Call or Eval. A case is one such execution. The expected (function, line) chain comes from a shadow call stack kept by host natives, never from goatlang. " +
			"non-trivial = the poisoned query fired; distinct = (fault kind, faulting opcode, call depth, enclosing constructs, optimizer, entry)",
		Real:       []string{"goatlang compiler positions (newPos, peephole fusion), VM backtrace (mkFunc push/pop), error builder (btErr), via Load/Call/Eval"},
		Stubs:      []string{"host.Idx/Den/Flag/Fail natives decide the fault instant; host.Enter/Leave/At keep the shadow stack", "SimDisk serves the program"},
		Assumes:    []string{"one statement per line; call statements carry their own line number as an argument of host.At", "chains that cross a native re-entry (sort comparators) are not generated", "the activation entered by Call has no call-site line (position zero is skipped by the error builder)"},
		ProbesWant: []string{"second_file", "spread_call_active", "fault:helper-div", "fault:helper-attr", "fault:local-div", "long_line", "after_lambda", "fault:idx-slice", "fault:idx-string", "fault:slice-bounds", "fault:div", "fault:mod", "fault:nil-set", "fault:nil-get", "fault:nil-method", "fault:nil-map", "fault:nil-func", "fault:panic", "fault:native", "fault:for-cond", "fault:idx-in-multiline-call", "multiline_call_active", "depth_10plus", "depth_20plus", "in_method", "in_loop", "in_switch", "entry_eval", "optimizer_off"},
	}
}

// --- generation --------------------------------------------------------------

type cpGen struct {
	r      *core.PRNG
	nextID int
	nf     int
}

func (g *cpGen) siteStmt() CPStmt {
	g.nextID++
	k := core.Pick(g.r, cpSiteKinds)
	s := CPStmt{Kind: k, Site: g.nextID}
	if k == "for-cond" {
		s.Body = g.block(0, 1, 2)
	}
	if k == "range-bad" {
		s.Body = g.block(0, 1+g.r.Intn(2), 2)
	}
	return s
}

func (g *cpGen) block(fi, n, depth int) []CPStmt {
	var out []CPStmt
	for i := 0; i < n; i++ {
		out = append(out, g.stmt(fi, depth))
	}
	return out
}

func (g *cpGen) stmt(fi, depth int) CPStmt {
	st := g.stmt0(fi, depth)
	if g.r.Chance(1, 12) {
		st.Pad = 200 + g.r.Intn(400)
	}
	return st
}

func (g *cpGen) stmt0(fi, depth int) CPStmt {
	if g.r.Chance(1, 12) {
		g.nextID++
		return CPStmt{Kind: core.Pick(g.r, []string{"lambda", "lambda", "sort"}), N: g.nextID}
	}
	k := g.r.Intn(20)
	switch {
	case k < 8 || depth >= 2:
		if k >= 5 && fi+1 < g.nf {
			st := CPStmt{Kind: core.Pick(g.r, []string{"call", "call", "fcall", "mlcall", "dotcall", "spreadcall", "spreadcall"}), Target: fi + 1 + g.r.Intn(g.nf-fi-1)}
			if st.Kind == "mlcall" && g.r.Bool() {
				g.nextID++
				st.Site = g.nextID
			}
			return st
		}
		return g.siteStmt()
	case k < 11 && fi+1 < g.nf:
		return CPStmt{Kind: "call", Target: fi + 1 + g.r.Intn(g.nf-fi-1)}
	case k < 13:
		return CPStmt{Kind: "for", N: 1 + g.r.Intn(3), Body: g.block(fi, 1+g.r.Intn(2), depth+1)}
	case k < 14:
		return CPStmt{Kind: "range", Body: g.block(fi, 1, depth+1)}
	case k < 16:
		return CPStmt{Kind: "if", Body: g.block(fi, 1+g.r.Intn(2), depth+1), Else: g.block(fi, g.r.Intn(2), depth+1)}
	case k < 18:
		return CPStmt{Kind: "switch", Body: g.block(fi, 1, depth+1), Else: g.block(fi, 1, depth+1), Third: g.block(fi, 1, depth+1)}
	}
	return g.siteStmt()
}

func (e crashpoint) genPlan(r *core.PRNG) *CPPlan {
	g := &cpGen{r: r, nf: 2 + r.Intn(9)}
	p := &CPPlan{Seed: r.Uint64(), Entry: "call", Rich: r.Bool()}
	if r.Chance(1, 4) {
		p.Entry = "eval"
	}
	rec := -1
	if r.Chance(2, 3) {
		rec = r.Intn(g.nf)
		p.Depth = 1 + r.Intn(28)
		if r.Chance(1, 2) {
			p.Depth = 1 + r.Intn(5)
		}
	}
	if g.nf > 2 && r.Chance(1, 2) {
		p.Split = 1 + r.Intn(g.nf-1)
	}
	if r.Chance(1, 5) {
		p.EOL = 1 + r.Intn(2)
	}
	if r.Chance(1, 5) {
		p.LeadBlank = 1 + r.Intn(4)
	}
	p.Cons = r.Chance(1, 6)
	p.PreFail = r.Chance(1, 5)
	if r.Chance(1, 12) {
		p.ManyGlobals = 3900 + r.Intn(700)
		if r.Chance(1, 4) {
			p.ManyGlobals = 200 + r.Intn(20000)
		}
	}
	p.LibPkg = p.Split > 0 && r.Chance(1, 2)
	for i := 0; i < g.nf; i++ {
		f := CPFunc{Method: i > 0 && r.Chance(1, 3), Variadic: i > 0 && r.Chance(1, 4)}
		n := 1 + r.Intn(4)
		f.Stmts = g.block(i, n, 0)
		if i == rec {
			f.Stmts = append(f.Stmts, CPStmt{Kind: "rec"})
			// a deep recursion must stay cheap per level
			if p.Depth > 6 && len(f.Stmts) > 3 {
				f.Stmts = f.Stmts[len(f.Stmts)-3:]
			}
		}
		if i+1 < g.nf && r.Chance(2, 3) { // keep the chain connected
			f.Stmts = append(f.Stmts, CPStmt{Kind: core.Pick(r, []string{"call", "mcall"}), Target: i + 1})
		}
		p.Funcs = append(p.Funcs, f)
	}
	return p
}

func (e crashpoint) RunUnit(seed uint64, tier string, unit int, exec func(plan any) *core.Result) {
	r := core.NewPRNG(core.Mix(seed, 0xC20, uint64(unit)))
	p := e.genPlan(r)
	clean := exec(p)
	k := int(clean.Counters["queries"])
	if !clean.OK() || k == 0 {
		return
	}
	max := 400
	if tier != "thorough" {
		max = 120
	}
	step := 1
	if k > max {
		step = (k + max - 1) / max
	}
	off := r.Intn(step)
	for at := 1 + off; at <= k; at += step {
		for _, opt := range []bool{false, true} {
			q := core.CloneJSON(p)
			q.PoisonAt, q.OptimizeOff = at, opt
			exec(q)
		}
	}
}

// --- execution ---------------------------------------------------------------

type cpFrame struct {
	fn       int
	callLine int
	caller   int
}

type cpRun struct {
	p       *CPPlan
	rd      *cpRendered
	h       *core.Host
	res     *core.Result
	stack   []cpFrame
	lastAt  int
	queries int
	fired   bool
	site    int
	snap    []cpFrame
}

var cpLineRe = regexp.MustCompile(`^\t?(?:(\S+)\(\.\.\.\) )?([^\s:]+):(\d+):(\d+)`)

type cpLoc struct {
	Func string
	File string
	Line int
}

func cpParse(msg string) (locs []cpLoc, opcode string, ok bool) {
	msg = strings.TrimPrefix(msg, "error in run: ")
	for i, ln := range strings.Split(msg, "\n") {
		m := cpLineRe.FindStringSubmatch(ln)
		if m == nil {
			return locs, opcode, false
		}
		n, _ := strconv.Atoi(m[3])
		locs = append(locs, cpLoc{Func: m[1], File: m[2], Line: n})
		if i == 0 {
			rest := ln[len(m[0]):]
			if parts := strings.SplitN(rest, ": ", 3); len(parts) >= 2 {
				opcode = parts[1]
			}
		}
	}
	return locs, opcode, true
}

func (crashpoint) Execute(plan any, keep bool) *core.Result {
	p := plan.(*CPPlan)
	res := &core.Result{Counters: core.Counters{}}
	hist := core.NewHistory(keep)
	rd := cpRender(p)
	eol := func(t string) []byte {
		if p.EOL == 0 {
			return []byte(t)
		}
		lines := strings.SplitAfter(t, "\n")
		for i, l := range lines {
			if strings.HasSuffix(l, "\n") && (p.EOL == 1 || (uint64(i)+p.Seed)%3 == 0) {
				lines[i] = l[:len(l)-1] + "\r\n"
			}
		}
		return []byte(strings.Join(lines, ""))
	}
	files := []core.DiskFile{{Path: "main/a.go", Data: eol(rd.Text)}}
	if rd.TextB != "" {
		pathB := "main/b.go"
		if p.LibPkg {
			pathB = cpLibPath + "/b.go"
		}
		files = append(files, core.DiskFile{Path: pathB, Data: eol(rd.TextB)})
	}
	if p.EOL != 0 {
		res.Counters.Inc("crlf_source")
	}
	disk := core.NewSimDisk(files, hist)
	disk.Rich, disk.Mute = p.Rich, true
	run := &cpRun{p: p, rd: rd, res: res, lastAt: -1}
	run.h = core.NewHost(p.Seed, disk, hist, run.natives)
	run.h.Budget = core.MaxBudget
	goatlang.VerifOptimizeOff = p.OptimizeOff
	defer func() { goatlang.VerifOptimizeOff = false; goatlang.VerifSetBudget(-1) }()
	finish := func() *core.Result {
		res.Counters.Merge(run.h.C)
		res.Counters.Add("queries", int64(run.queries))
		res.Hash = hist.Hash()
		res.History = hist
		res.Steps = 2
		return res
	}
	for i := 0; i < p.ManyGlobals; i++ {
		run.h.VM.Set(fmt.Sprintf("cfg.k%d", i), goatlang.Int(i))
	}
	if p.ManyGlobals != 0 {
		res.Counters.Inc("many_globals")
	}
	if err := run.h.Load("main"); err != nil {
		res.Fail("HARNESS", "generator", "program", "the generated program does not load: %v\n%s", err, rd.Text)
		return finish()
	}
	if len(p.Funcs) == 0 {
		return finish()
	}
	if p.PreFail && p.PoisonAt != 0 {
		// an earlier host call on this VM that fails three frames deep: what it leaves behind must
		// not show up in the chain of the next failure
		if _, perr := run.h.Call("main.pf1", 1, goatlang.Int(0)); perr == nil {
			res.Fail("HARNESS", "generator", "prefail", "main.pf1(0) did not fail")
			return finish()
		}
		res.Counters.Inc("pre_failure")
	}
	var err error
	if p.Entry == "eval" {
		res.Counters.Inc("entry_eval")
		pre := ""
		if p.Seed%2 == 0 {
			pre = "func init() { host.At(0) }; " // top-level code after an init function is still top-level code
		}
		_, err = run.h.Eval("stdin", fmt.Sprintf("import \"host\"; %shost.At(1); f0(%d)", pre, p.Depth))
	} else {
		_, err = run.h.Call("main.f0", 1, goatlang.Int(p.Depth))
	}
	if p.OptimizeOff {
		res.Counters.Inc("optimizer_off")
	}
	for i, esc := range run.h.Escapes {
		res.Fail("C20", "C20/error", "panic", "the entry point panicked instead of returning an error (%s) [raised at %s]", esc, run.h.EscapeSites[i])
	}
	if len(run.h.Escapes) > 0 {
		return finish()
	}
	if !run.fired {
		if err != nil && !core.IsBudget(err) {
			res.Fail("HARNESS", "generator", "clean-run", "the program failed without any poisoned query: %s\n%s", err, rd.Text)
		}
		res.Abstract = "clean"
		return finish()
	}
	res.Nontrivial = true
	site := rd.Sites[run.site]
	res.Counters.Inc("fault:" + site.Kind)
	depth := len(run.snap)
	if depth >= 10 {
		res.Counters.Inc("depth_10plus")
	}
	if depth >= 20 {
		res.Counters.Inc("depth_20plus")
	}
	if len(run.snap) > 0 && p.Funcs[run.snap[len(run.snap)-1].fn].Method {
		res.Counters.Inc("in_method")
	}
	if site.File == "main/b.go" {
		res.Counters.Inc("second_file")
	}
	for _, fr := range run.snap {
		if p.Funcs[fr.fn].Variadic {
			res.Counters.Inc("spread_call_active")
			break
		}
	}
	for _, fr := range run.snap {
		if rd.ML[fr.callLine] {
			res.Counters.Inc("multiline_call_active")
			break
		}
	}
	if strings.Contains(site.Ctx, "l") {
		res.Counters.Inc("in_loop")
	}
	if site.Col >= 256 {
		res.Counters.Inc("long_line")
	}
	if site.Lam {
		res.Counters.Inc("after_lambda")
	}
	if strings.Contains(site.Ctx, "s") {
		res.Counters.Inc("in_switch")
	}
	if core.IsBudget(err) {
		res.Abstract = "budget"
		return finish()
	}
	if err == nil {
		res.Fail("C20", "C20/error", site.Kind, "the %s fault at line %d did not make the call return an error", site.Kind, site.Line)
		return finish()
	}
	locs, opcode, ok := cpParse(err.Error())
	// expected chain from the shadow stack
	var want []cpLoc
	top := run.snap[len(run.snap)-1]
	if helper := map[string]string{"helper-div": "hdiv", "helper-attr": "hattr"}[site.Kind]; helper != "" {
		helper = p.pkgOf(site.Func) + "." + helper
		hfile := "main/a.go"
		if p.inLib(site.Func) {
			hfile = cpLibPath + "/b.go"
		}
		want = append(want, cpLoc{Func: helper, File: hfile, Line: rd.HelperLine[helper]})
	}
	want = append(want, cpLoc{Func: rd.Names[top.fn], File: site.File, Line: site.Line})
	for i := len(run.snap) - 1; i >= 1; i-- {
		fr := run.snap[i]
		want = append(want, cpLoc{Func: rd.Names[fr.caller], File: rd.FuncFile[fr.caller], Line: fr.callLine})
	}
	if p.Entry == "eval" {
		want = append(want, cpLoc{Func: "", File: "stdin", Line: 1})
	}
	res.Abstract = fmt.Sprintf("%s|%s|d%d|%s|opt%v|%s", site.Kind, opcode, depth, site.Ctx, !p.OptimizeOff, p.Entry)
	hist.Add("oracle", "want", fmt.Sprint(want))
	hist.Add("oracle", "got", fmt.Sprint(locs))
	if !ok || len(locs) == 0 {
		res.Fail("C20", "C20/site", "unparsable", "the error text has a line that names no position: %q", err.Error())
		return finish()
	}
	if top.fn != site.Func {
		res.Fail("HARNESS", "shadow", "stack", "shadow stack top %d is not the site's function %d", top.fn, site.Func)
		return finish()
	}
	if locs[0] != want[0] {
		res.Fail("C20", "C20/site", site.Kind, "a %s fault in %s at %s:%d is reported at %s %s:%d (opcode %s, optimizer on=%v)", site.Kind, want[0].Func, want[0].File, want[0].Line, locs[0].Func, locs[0].File, locs[0].Line, opcode, !p.OptimizeOff)
		return finish()
	}
	if len(locs) != len(want) {
		res.Fail("C20", "C20/chain", "length", "%d calls are active (innermost first: %v) but the error lists %d positions: %v", len(want)-1, want[1:], len(locs)-1, locs[1:])
		return finish()
	}
	for i := 1; i < len(want); i++ {
		if locs[i] != want[i] {
			form := "single-line-call"
			if rd.ML[want[i].Line] {
				form = "multi-line-call"
			}
			res.Fail("C20", "C20/chain", fmt.Sprintf("entry-%s-optimizer-on=%v", form, !p.OptimizeOff), "call-chain entry %d should be %s line %d but is %s line %d; want %v got %v", i, want[i].Func, want[i].Line, locs[i].Func, locs[i].Line, want, locs)
			break
		}
	}
	return finish()
}

func (run *cpRun) query(id int) bool {
	run.queries++
	if run.p.PoisonAt != 0 && run.queries == run.p.PoisonAt {
		run.fired = true
		run.site = id
		run.snap = append([]cpFrame{}, run.stack...)
		run.h.H.Add("host", "poison", fmt.Sprintf("query %d site %d depth %d", run.queries, id, len(run.stack)))
		return true
	}
	return false
}

func (run *cpRun) natives(vm *goatlang.VM) {
	vm.Set("host.Enter", goatlang.NewFunc(1, 0, func(v *goatlang.VM, a []goatlang.Value) {
		caller := -1
		if len(run.stack) > 0 {
			caller = run.stack[len(run.stack)-1].fn
		}
		run.stack = append(run.stack, cpFrame{fn: a[0].Int(), callLine: run.lastAt, caller: caller})
		run.lastAt = -1
	}))
	vm.Set("host.Leave", goatlang.NewFunc(0, 0, func(v *goatlang.VM) {
		if len(run.stack) > 0 {
			run.stack = run.stack[:len(run.stack)-1]
		}
	}))
	vm.Set("host.At", goatlang.NewFunc(1, 0, func(v *goatlang.VM, a []goatlang.Value) { run.lastAt = a[0].Int() }))
	vm.Set("host.Idx", goatlang.NewFunc(1, 1, func(v *goatlang.VM, a []goatlang.Value) goatlang.Value {
		if run.query(a[0].Int()) {
			return goatlang.Int(99)
		}
		return goatlang.Int(2)
	}))
	vm.Set("host.Den", goatlang.NewFunc(1, 1, func(v *goatlang.VM, a []goatlang.Value) goatlang.Value {
		if run.query(a[0].Int()) {
			return goatlang.Int(0)
		}
		return goatlang.Int(3)
	}))
	vm.Set("host.Flag", goatlang.NewFunc(1, 1, func(v *goatlang.VM, a []goatlang.Value) goatlang.Value {
		if run.query(a[0].Int()) {
			return goatlang.Int(1)
		}
		return goatlang.Int(0)
	}))
	vm.Set("host.Fail", goatlang.NewFunc(1, 0, func(v *goatlang.VM, a []goatlang.Value) {
		if run.query(a[0].Int()) {
			panic("injected native failure")
		}
	}))
}

// --- minimisation --------------------------------------------------------------

func cpDropStmts(ss []CPStmt) [][]CPStmt {
	var out [][]CPStmt
	for _, c := range core.DropChunks(ss, 0) {
		out = append(out, c)
	}
	for i := range ss {
		for _, part := range []*[]CPStmt{&ss[i].Body, &ss[i].Else, &ss[i].Third} {
			for _, c := range cpDropStmts(*part) {
				cp := append([]CPStmt{}, ss...)
				n := cp[i]
				switch part {
				case &ss[i].Body:
					n.Body = c
				case &ss[i].Else:
					n.Else = c
				default:
					n.Third = c
				}
				cp[i] = n
				out = append(out, cp)
			}
		}
		// replace a block statement by its body
		if len(ss[i].Body) > 0 && (ss[i].Kind == "for" || ss[i].Kind == "if" || ss[i].Kind == "range") {
			cp := append(append(append([]CPStmt{}, ss[:i]...), ss[i].Body...), ss[i+1:]...)
			out = append(out, cp)
		}
	}
	return out
}

func (crashpoint) Shrink(plan any) []func() any {
	p := plan.(*CPPlan)
	var out []func() any
	mod := func(f func(q *CPPlan)) {
		out = append(out, func() any {
			q := core.CloneJSON(p)
			f(q)
			return q
		})
	}
	// Dropping statements changes how many queries precede the fault: let the
	// poisoned query float to any earlier position while the same rule fails.
	for fi := range p.Funcs {
		fi := fi
		for _, c := range cpDropStmts(p.Funcs[fi].Stmts) {
			c := c
			for _, at := range []int{p.PoisonAt, 1, 2, 3, p.PoisonAt - 1, p.PoisonAt / 2} {
				at := at
				if at >= 1 {
					mod(func(q *CPPlan) { q.Funcs[fi].Stmts = c; q.PoisonAt = at })
				}
			}
		}
	}
	if len(p.Funcs) > 1 {
		mod(func(q *CPPlan) { q.Funcs = q.Funcs[:len(q.Funcs)-1] })
	}
	for _, d := range core.ShrinkInts(p.Depth, 0) {
		d := d
		for _, at := range []int{p.PoisonAt, 1, 2, 3} {
			at := at
			mod(func(q *CPPlan) { q.Depth = d; q.PoisonAt = at })
		}
	}
	for _, at := range core.ShrinkInts(p.PoisonAt, 1) {
		at := at
		mod(func(q *CPPlan) { q.PoisonAt = at })
	}
	if p.Entry == "eval" {
		mod(func(q *CPPlan) { q.Entry = "call" })
	}
	if p.EOL != 0 {
		mod(func(q *CPPlan) { q.EOL = 0 })
	}
	if p.LeadBlank != 0 {
		mod(func(q *CPPlan) { q.LeadBlank = 0 })
	}
	if p.Cons {
		mod(func(q *CPPlan) { q.Cons = false })
	}
	if p.PreFail {
		mod(func(q *CPPlan) { q.PreFail = false })
	}
	if p.ManyGlobals != 0 {
		mod(func(q *CPPlan) { q.ManyGlobals = 0 })
		mod(func(q *CPPlan) { q.ManyGlobals = p.ManyGlobals / 2 })
	}
	if p.LibPkg {
		mod(func(q *CPPlan) { q.LibPkg = false })
	}
	if p.Rich {
		mod(func(q *CPPlan) { q.Rich = false })
	}
	return out
}
