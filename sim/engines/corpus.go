// Package engines holds one simulation engine per claimed property.
package engines

import (
	"bytes"
	"go/ast"
	"go/parser"
	"go/token"
	"os"
	"path/filepath"
	"sort"
	"strconv"
	"strings"
	"sync"

	"goatsim/core"
)

// RepoDir is the tree whose test tables and examples seed the source pools.
func RepoDir() string {
	if d := os.Getenv("GOATSIM_REPO"); d != "" {
		return d
	}
	return "/repo"
}

type corpusT struct {
	Snippets [][]byte          // every string literal of /repo/*_test.go, in file and position order
	Trees    [][]core.DiskFile // every mapFS{...} literal of the test files
	Examples [][]byte          // example/*/main.go
}

var (
	corpusOnce sync.Once
	corpus     corpusT
)

// Corpus extracts "the repository's own tables" from the current tree, at run
// time, with go/parser (no goatlang code involved).
func Corpus() *corpusT {
	corpusOnce.Do(func() {
		files, _ := filepath.Glob(filepath.Join(RepoDir(), "*_test.go"))
		sort.Strings(files)
		fset := token.NewFileSet()
		for _, fn := range files {
			f, err := parser.ParseFile(fset, fn, nil, 0)
			if err != nil {
				continue
			}
			ast.Inspect(f, func(n ast.Node) bool {
				switch x := n.(type) {
				case *ast.CompositeLit:
					if id, ok := x.Type.(*ast.Ident); ok && id.Name == "mapFS" {
						var tree []core.DiskFile
						for _, el := range x.Elts {
							kv, ok := el.(*ast.KeyValueExpr)
							if !ok {
								continue
							}
							k, ok1 := kv.Key.(*ast.BasicLit)
							v, ok2 := kv.Value.(*ast.BasicLit)
							if !ok1 || !ok2 || k.Kind != token.STRING || v.Kind != token.STRING {
								continue
							}
							ks, _ := strconv.Unquote(k.Value)
							vs, _ := strconv.Unquote(v.Value)
							tree = append(tree, core.DiskFile{Path: ks, Data: []byte(vs)})
						}
						if len(tree) > 0 {
							corpus.Trees = append(corpus.Trees, tree)
						}
					}
				case *ast.BasicLit:
					if x.Kind == token.STRING {
						if s, err := strconv.Unquote(x.Value); err == nil && len(s) > 0 {
							corpus.Snippets = append(corpus.Snippets, []byte(s))
						}
					}
				}
				return true
			})
		}
		ex, _ := filepath.Glob(filepath.Join(RepoDir(), "example", "*", "main.go"))
		sort.Strings(ex)
		for _, fn := range ex {
			if b, err := os.ReadFile(fn); err == nil {
				corpus.Examples = append(corpus.Examples, b)
			}
		}
		if len(corpus.Snippets) == 0 {
			// never run on an empty pool silently
			corpus.Snippets = append(corpus.Snippets, []byte("package main; func main() { println(42) }"))
		}
	})
	return &corpus
}

var damageTokens = strings.Fields(`func return if else for range switch case default var const type struct interface map [] import package
 break continue make nil true false := = + - * / % ( ) { } [ ] , ; . ... && || ! < > <= >= == != | ^ & << >> ++ -- += -= *= /= %= |= ^= &= <<= >>= $ iota go chan <- -> ~
 0x 0 1e 08 ' " ` + "`" + ` \ // /* */ 'ab' "\x" 0x7fffffffffffffffff 1e999 _ any error int string float64 byte len append delete panic copy print println
 x.y x[0] x[:] x[1:2] f() &T{} *T []int{} map[string]int{} func(){} -1 ^1 !x`)

// Damage is one way in which source text reaching an entry point goes bad.
var damageKinds = []string{"none", "torn-save", "spliced-overwrite", "flipped-byte", "garbage-tail", "token-insert", "token-delete", "token-dup", "invalid-utf8", "nul-byte", "long-ident", "deep-nesting", "line-shuffle", "int-literal-swap", "clause-prefix", "shebang"}

var clausePrefixes = []string{"& ", "* ", "- ", "! ", "( ", "+ ", "x. ", "[]", "func ", "go ", "= ", ", ", ": ", "^", "<-", "1 + ", "a, b := ", "return ", "{ ", "} ", "package ", "import ", "var x = ", "\"s\" ", "'c' ", "// c\n/* c */ & ", "...", "&&"}

// damage applies one damage kind; other is a second source for splices.
func damage(r *core.PRNG, kind string, src, other []byte) []byte {
	cp := func(b []byte) []byte { return append([]byte(nil), b...) }
	src = cp(src)
	switch kind {
	case "none":
		return src
	case "shebang":
		// an interpreter line in front, with or without the rest of the file (or even a newline)
		sb := core.Pick(r, []string{"#!/usr/bin/env goat", "#!", "#!/bin/goat -x", "#", "#!\r", "#! goat\x00"})
		switch r.Intn(4) {
		case 0:
			return []byte(sb)
		case 1:
			return append([]byte(sb), src...)
		}
		return append([]byte(sb+"\n"), src...)
	case "clause-prefix":
		// something in front of (or instead of the name behind) the package clause
		pre := core.Pick(r, clausePrefixes)
		if i := bytes.Index(src, []byte("package")); i >= 0 {
			if r.Chance(1, 4) {
				return append(append(cp(src[:i+7]), []byte(" "+pre)...), src[i+7:]...)
			}
			return append(append(cp(src[:i]), []byte(pre)...), src[i:]...)
		}
		return append([]byte(pre+"package main\n"), src...)
	case "torn-save":
		return src[:r.Intn(len(src)+1)]
	case "spliced-overwrite":
		if len(other) == 0 {
			other = []byte("package main\nfunc main() {}\n")
		}
		a := r.Intn(len(other) + 1)
		b := r.Intn(len(src) + 1)
		return append(cp(other[:a]), src[b:]...)
	case "flipped-byte":
		if len(src) == 0 {
			return src
		}
		n := 1 + r.Intn(3)
		for i := 0; i < n; i++ {
			p := r.Intn(len(src))
			if r.Bool() {
				src[p] ^= 1 << uint(r.Intn(8))
			} else {
				src[p] = byte(r.Intn(256))
			}
		}
		return src
	case "garbage-tail":
		src = src[:r.Intn(len(src)+1)]
		n := r.Intn(24)
		for i := 0; i < n; i++ {
			src = append(src, byte(r.Intn(256)))
		}
		return src
	case "token-insert", "token-delete", "token-dup":
		toks := roughTokens(src)
		n := 1 + r.Intn(3)
		for i := 0; i < n; i++ {
			switch kind {
			case "token-insert":
				p := r.Intn(len(toks) + 1)
				t := core.Pick(r, damageTokens)
				toks = append(toks[:p], append([]string{" " + t + " "}, toks[p:]...)...)
			case "token-delete":
				if len(toks) > 0 {
					p := r.Intn(len(toks))
					toks = append(toks[:p], toks[p+1:]...)
				}
			case "token-dup":
				if len(toks) > 0 {
					p := r.Intn(len(toks))
					q := r.Intn(len(toks) + 1)
					t := toks[p]
					toks = append(toks[:q], append([]string{t}, toks[q:]...)...)
				}
			}
		}
		return []byte(strings.Join(toks, ""))
	case "invalid-utf8":
		p := r.Intn(len(src) + 1)
		bad := core.Pick(r, []string{"\xff", "\xc0\xaf", "\xed\xa0\x80", "\xf8\x88\x80\x80\x80", "\xe2\x82", "\ufeff"})
		return append(cp(src[:p]), append([]byte(bad), src[p:]...)...)
	case "nul-byte":
		p := r.Intn(len(src) + 1)
		return append(cp(src[:p]), append([]byte{0}, src[p:]...)...)
	case "long-ident":
		p := r.Intn(len(src) + 1)
		id := strings.Repeat(core.Pick(r, []string{"a", "x9", "_", "é"}), 200+r.Intn(3000))
		return append(cp(src[:p]), append([]byte(" "+id+" "), src[p:]...)...)
	case "deep-nesting":
		depth := 10 + r.Intn(1990)
		open, close := "(", ")"
		switch r.Intn(6) {
		case 1:
			open, close = "[", "]"
		case 2:
			open, close = "{", "}"
		case 3:
			open, close = "-", ""
		case 4:
			open, close = "!", ""
		case 5:
			open, close = "f(", ")"
		}
		inner := "1"
		if r.Bool() {
			close = "" // unbalanced
		}
		p := r.Intn(len(src) + 1)
		mid := strings.Repeat(open, depth) + inner + strings.Repeat(close, depth)
		return append(cp(src[:p]), append([]byte(" "+mid+" "), src[p:]...)...)
	case "int-literal-swap":
		toks := roughTokens(src)
		var idx []int
		for i, t := range toks {
			if len(t) > 0 && t[0] >= '0' && t[0] <= '9' {
				idx = append(idx, i)
			}
		}
		if len(idx) == 0 {
			return src
		}
		toks[core.Pick(r, idx)] = core.Pick(r, wildInts)
		return []byte(strings.Join(toks, ""))
	case "line-shuffle":
		lines := strings.SplitAfter(string(src), "\n")
		if len(lines) < 2 {
			lines = strings.SplitAfter(string(src), ";")
		}
		perm := r.Perm(len(lines))
		out := make([]string, len(lines))
		for i, j := range perm {
			out[i] = lines[j]
		}
		return []byte(strings.Join(out, ""))
	}
	return src
}

// roughTokens splits text into identifier/number runs, punctuation and blanks.
func roughTokens(b []byte) []string {
	var out []string
	isWord := func(c byte) bool {
		return c == '_' || c >= '0' && c <= '9' || c >= 'a' && c <= 'z' || c >= 'A' && c <= 'Z' || c >= 0x80
	}
	for i := 0; i < len(b); {
		j := i + 1
		switch {
		case isWord(b[i]):
			for j < len(b) && isWord(b[j]) {
				j++
			}
		case b[i] == '"' || b[i] == '`' || b[i] == '\'':
			q := b[i]
			for j < len(b) && b[j] != q && b[j] != '\n' {
				if b[j] == '\\' && q != '`' {
					j++
				}
				j++
			}
			if j < len(b) {
				j++
			}
			if j > len(b) {
				j = len(b)
			}
		case b[i] == ' ' || b[i] == '\t' || b[i] == '\n':
			for j < len(b) && (b[j] == ' ' || b[j] == '\t' || b[j] == '\n') {
				j++
			}
		}
		out = append(out, string(b[i:j]))
		i = j
	}
	return out
}

func capLen(b []byte, n int) []byte {
	if len(b) > n {
		return b[:n]
	}
	return b
}
