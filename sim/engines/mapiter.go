package engines

import (
	"fmt"
	"math"
	"regexp"
	"strconv"
	"strings"

	"github.com/philhassey/goatlang"

	"goatsim/core"
)

// mapiter decides C10: script maps behave like Go maps under any history,
// including several live range cursors interleaved with inserts, deletes and
// re-inserts. There is no fault kind for this property; the simulator
// contributes the interleaving and the seeded order of key-list compaction.

type MItem struct {
	ID     int     `json:"id"`
	Kind   string  `json:"kind"` // set del get getok len curset curdel loop
	Key    int     `json:"key,omitempty"`
	Vid    int     `json:"vid,omitempty"`
	OnIter int     `json:"on_iter,omitempty"` // only in the n-th iteration of the enclosing loop (0 = every)
	Cursor int     `json:"cursor,omitempty"`
	Miss   int     `json:"miss,omitempty"` // getmiss: the level (1..Nest) at which the outer key is missing
	Max    int     `json:"max,omitempty"`  // abandon the loop after this many iterations (0 = run to exhaustion)
	Body   []MItem `json:"body,omitempty"`
}

type MPlan struct {
	Seed        uint64  `json:"seed"`
	KeyType     string  `json:"key_type"`  // string int32 uint8 float64 bool
	ElemType    string  `json:"elem_type"` // int string float64 bool slice struct
	Universe    int     `json:"universe"`
	Driver      string  `json:"driver"` // host | script
	Initial     []int   `json:"initial,omitempty"`
	Items       []MItem `json:"items"`
	OptimizeOff bool    `json:"optimize_off,omitempty"`
	OneLine     bool    `json:"one_line,omitempty"`  // script driver: the whole body on one source line (nested loops share a line)
	NilStart    int     `json:"nil_start,omitempty"` // script driver: the map variable starts as a nil map; the first N items (reads only) run against it
	Local       bool    `json:"local,omitempty"`    // script driver: the map variable is a local of run() (the optimizer fuses local/constant-key accesses)
	Nest        int     `json:"nest,omitempty"`      // the map under test is a value 1 or 2 levels inside map[string]map[string]...: a["a"]["b"]; getmiss items read through a missing or nil level
	Literal     bool    `json:"literal,omitempty"`   // the initial pairs are given to the constructor / a map literal with computed keys (repeats allowed: the last wins, as in Go)
}

type mapiter struct{}

var mRe = regexp.MustCompile(`\bm\b`)

func init() { core.Register(mapiter{}) }

func (mapiter) Property() string { return "C10" }
func (mapiter) Name() string     { return "mapiter" }
func (mapiter) NewPlan() any     { return &MPlan{} }
func (mapiter) Units(tier string) int {
	if tier == "thorough" {
		return 50000000
	}
	return 400000
}

func (mapiter) Describe() core.EngineInfo {
	return core.EngineInfo{
		Level: "exploration",
		Rule: "a case is one history over one map: inserts/updates with unique values, deletes, lookups, comma-ok lookups, len, and up to three nested range cursors whose bodies perform further operations (also on the cursor's current key) in chosen iterations, abandoned or run to exhaustion; " +
			"the map under test may sit 1-2 levels inside string-keyed maps (lookups through missing and nil levels), may be a local of the script function (fused accesses) and may be cloned, the clone kept and written to; driven through the host Value API (NewMap/Set/Get/Delete/Len/Range) or through a generated script (m[k]=v, delete, v,ok:=m[k], len, nested for-range); key types string/int32/uint8/float64(+-0)/bool, element types int/string/float64/bool/[]int/*T; key universe 2-40 so that histories cross the compaction threshold; the order produced by key-list compaction is a seeded choice (verif hook). " +
			"Judged step by step against a Go map with per-key liveness generations. non-trivial = a cursor was alive across a mutation; distinct = (driver, key type, op-kind sequence relative to cursors, compactions)",
		Real:       []string{"goatlang stringMap/numericMap (Set/Get/Delete/Len/Range, key-list compaction), NewMap, codes SET/GET/GETOK/DELETE/LEN/RANGE/ITER and fused FASTGET/FASTSET through the compiler and VM"},
		Stubs:      []string{"Go's randomised map iteration inside the key-list compaction -> seeded permutation (hook verifOrderStrings/verifOrderFloats)"},
		Assumes:    []string{"no order is required of a range", "NaN keys excluded (as the property says)", "+0 and -0 are one key (as in Go)"},
		ProbesWant: []string{"compactions", "cursor_across_compaction", "reinsert", "delete_ahead_of_cursor", "delete_behind_cursor", "delete_current", "insert_during_loop", "nested_cursors", "driver_host", "driver_script", "maps_keys", "one_line_script", "literal_with_repeated_key", "nil_map_start", "nested_map", "nested_miss", "clone_written", "local_map_variable", "exhausted", "abandoned"},
	}
}

// --- generation --------------------------------------------------------------

type mGen struct {
	cloned bool
	nest   int
	r      *core.PRNG
	u      int
	id     int
	vid    int
	cursor int
}

func (g *mGen) item(depth int, inLoop bool) MItem {
	g.id++
	it := MItem{ID: g.id}
	k := g.r.Intn(100)
	key := g.r.Intn(g.u)
	if g.r.Chance(1, 3) {
		key = g.r.Intn(1 + g.u/4) // bias towards a few hot keys: delete-then-reinsert
	}
	switch {
	case k < 30:
		g.vid++
		it.Kind, it.Key, it.Vid = "set", key, g.vid
	case k < 55:
		it.Kind, it.Key = "del", key
	case k < 62:
		it.Kind, it.Key = "get", key
		if g.nest > 0 && g.r.Chance(1, 2) {
			it.Kind, it.Miss = "getmiss", 1+g.r.Intn(g.nest)
		}
	case k < 69:
		it.Kind, it.Key = "getok", key
	case k < 72:
		it.Kind = "len"
	case k < 73:
		it.Kind = "keys" // golang.org/x/exp/maps.Keys: a library function built on Range
	case k < 74:
		it.Kind = "clone" // maps.Clone: the clone is compared and kept; later items write to it (cset, cdel) and list it (ckeys)
		if g.cloned && g.r.Chance(2, 3) {
			switch g.r.Intn(4) {
			case 0, 1:
				g.vid++
				it.Kind, it.Key, it.Vid = "cset", g.r.Intn(g.u), g.vid
			case 2:
				it.Kind, it.Key = "cdel", key
			default:
				it.Kind = "ckeys"
			}
		}
		g.cloned = true
	case k < 82 && inLoop:
		it.Kind = "curdel"
	case k < 88 && inLoop:
		g.vid++
		it.Kind, it.Vid = "curset", g.vid
	case k < 100 && depth < 3:
		g.cursor++
		it.Kind, it.Cursor = "loop", g.cursor
		if g.r.Chance(1, 3) {
			it.Max = 1 + g.r.Intn(4)
		}
		n := g.r.Intn(5)
		for i := 0; i < n; i++ {
			b := g.item(depth+1, true)
			if g.r.Chance(2, 3) {
				b.OnIter = 1 + g.r.Intn(4)
			}
			it.Body = append(it.Body, b)
		}
	default:
		g.vid++
		it.Kind, it.Key, it.Vid = "set", key, g.vid
	}
	return it
}

func (e mapiter) genPlan(r *core.PRNG) *MPlan {
	p := &MPlan{Seed: r.Uint64(), KeyType: core.Pick(r, []string{"string", "string", "int32", "int32", "uint8", "float64", "bool"}),
		ElemType: core.Pick(r, []string{"int", "int", "string", "float64", "bool", "slice", "struct", "any", "any"}), Universe: 2 + r.Intn(39), Driver: "host", OptimizeOff: r.Chance(1, 4)}
	if p.KeyType == "bool" {
		p.Universe = 2
	}
	if r.Chance(2, 5) {
		p.Driver = "script"
	}
	if p.Driver == "host" && p.ElemType == "struct" {
		p.ElemType = "slice"
	}
	p.OneLine = p.Driver == "script" && r.Chance(1, 3)
	p.Local = p.Driver == "script" && r.Chance(1, 2)
	p.Literal = r.Chance(1, 3)
	if r.Chance(1, 4) {
		p.Nest = 1 + r.Intn(2)
	}
	g := &mGen{r: r, u: p.Universe, nest: p.Nest}
	ni := r.Intn(p.Universe + 1)
	for i := 0; i < ni; i++ {
		p.Initial = append(p.Initial, r.Intn(p.Universe))
	}
	if p.Driver == "script" && r.Chance(1, 4) {
		// reads, len, delete and range on a nil map, before the first make
		p.Initial, p.Literal = nil, false
		p.NilStart = 1 + r.Intn(5)
		for i := 0; i < p.NilStart; i++ {
			g.id++
			it := MItem{ID: g.id, Kind: core.Pick(r, []string{"get", "getok", "len", "del", "loop", "keys"}), Key: r.Intn(p.Universe)}
			if it.Kind == "loop" {
				g.cursor++
				it.Cursor = g.cursor
			}
			p.Items = append(p.Items, it)
		}
	}
	n := 3 + r.Intn(30)
	if p.Driver == "host" && r.Chance(1, 3) {
		n = 20 + r.Intn(100)
	}
	for i := 0; i < n; i++ {
		p.Items = append(p.Items, g.item(0, false))
	}
	return p
}

func (e mapiter) RunUnit(seed uint64, tier string, unit int, exec func(plan any) *core.Result) {
	r := core.NewPRNG(core.Mix(seed, 0xC10, uint64(unit)))
	exec(e.genPlan(r))
}

// --- keys and values -----------------------------------------------------------

func (p *MPlan) keyValue(k int) goatlang.Value {
	switch p.KeyType {
	case "string":
		if k == 2 {
			return goatlang.String("") // the empty string is a key like any other
		}
		return goatlang.String(fmt.Sprintf("k%d", k))
	case "int32":
		if k == 3 {
			return goatlang.Int32(0)
		}
		return goatlang.Int32(int32(k*37 - 500))
	case "uint8":
		return goatlang.Uint8(uint8(k * 6))
	case "float64":
		if k == 1 {
			return goatlang.Float64(math.Copysign(0, -1)) // the same key as k == 0
		}
		if k == 5 {
			return goatlang.Float64(3000000000) // written as an integer constant beyond int32 in the script
		}
		return goatlang.Float64(float64(k) / 4)
	}
	return goatlang.Bool(k%2 == 1)
}

// canon maps a key index to the model key (float -0 and +0 coincide; bool has two keys).
func (p *MPlan) canon(k int) int {
	if p.KeyType == "float64" && k == 1 {
		return 0
	}
	if p.KeyType == "bool" {
		return k % 2
	}
	return k
}

func (p *MPlan) keyLit(k int) string {
	switch p.KeyType {
	case "string":
		if k == 2 {
			return `""`
		}
		return fmt.Sprintf("%q", fmt.Sprintf("k%d", k))
	case "int32":
		if k == 3 {
			return "0"
		}
		return fmt.Sprintf("(%d)", k*37-500)
	case "uint8":
		return fmt.Sprint(k * 6)
	case "float64":
		if k == 1 {
			return "negZero"
		}
		if k == 5 {
			return "3000000000"
		}
		f := strconv.FormatFloat(float64(k)/4, 'f', -1, 64)
		if !strings.Contains(f, ".") {
			f += ".0"
		}
		return f
	}
	if k%2 == 1 {
		return "true"
	}
	return "false"
}

// keyOf recovers the model key from a yielded key value.
func (p *MPlan) keyOf(v goatlang.Value) (int, bool) {
	for k := 0; k < p.Universe; k++ {
		kv := p.keyValue(k)
		if p.KeyType == "string" {
			if v.Type() == goatlang.TypeString && v.String() == kv.String() {
				return p.canon(k), true
			}
		} else if v.Type() != goatlang.TypeString && v.Float64() == kv.Float64() {
			return p.canon(k), true
		}
	}
	return 0, false
}

func (p *MPlan) elemValue(vid int) goatlang.Value {
	switch p.ElemType {
	case "int":
		return goatlang.Int(vid)
	case "string":
		return goatlang.String(fmt.Sprintf("v%d", vid))
	case "float64":
		return goatlang.Float64(float64(vid) + 0.5)
	case "bool":
		return goatlang.Bool(vid%2 == 1)
	case "any":
		// element type any: a third of the writes store nil (a live key whose value is nil)
		switch vid % 3 {
		case 0:
			return goatlang.Nil()
		case 1:
			return goatlang.Int(vid)
		}
		return goatlang.String(fmt.Sprintf("v%d", vid))
	}
	return goatlang.NewSlice(goatlang.TypeInt32, []goatlang.Value{goatlang.Int(vid)})
}

func (p *MPlan) elemLit(vid int) string {
	switch p.ElemType {
	case "int":
		return fmt.Sprint(vid)
	case "string":
		return fmt.Sprintf("%q", fmt.Sprintf("v%d", vid))
	case "float64":
		return fmt.Sprintf("%d.5", vid)
	case "bool":
		if vid%2 == 1 {
			return "true"
		}
		return "false"
	case "slice":
		return fmt.Sprintf("[]int{%d}", vid)
	case "any":
		switch vid % 3 {
		case 0:
			return "nil"
		case 1:
			return fmt.Sprintf("int(%d)", vid)
		}
		return fmt.Sprintf("%q", fmt.Sprintf("v%d", vid))
	}
	return fmt.Sprintf("&T{A: %d}", vid)
}

func (p *MPlan) types() (goatlang.Type, goatlang.Type, string, string) {
	kt := map[string]goatlang.Type{"string": goatlang.TypeString, "int32": goatlang.TypeInt32, "uint8": goatlang.TypeUint8, "float64": goatlang.TypeFloat64, "bool": goatlang.TypeBool}[p.KeyType]
	ks := map[string]string{"string": "string", "int32": "int", "uint8": "byte", "float64": "float64", "bool": "bool"}[p.KeyType]
	et := map[string]goatlang.Type{"int": goatlang.TypeInt32, "string": goatlang.TypeString, "float64": goatlang.TypeFloat64, "bool": goatlang.TypeBool}[p.ElemType]
	es := map[string]string{"int": "int", "string": "string", "float64": "float64", "bool": "bool", "slice": "[]int", "struct": "*T", "any": "any"}[p.ElemType]
	if p.ElemType == "slice" {
		et = goatlang.TypeSlice | goatlang.TypeInt32<<8
	}
	return kt, et, ks, es
}

// elemIs reports whether v is the element written as vid (vid 0 = the zero value).
func (p *MPlan) elemIs(v goatlang.Value, vid int) bool {
	switch p.ElemType {
	case "int":
		return v.Type() == goatlang.TypeInt32 && v.Int() == vid
	case "string":
		want := ""
		if vid != 0 {
			want = fmt.Sprintf("v%d", vid)
		}
		return v.Type() == goatlang.TypeString && v.String() == want
	case "float64":
		want := 0.0
		if vid != 0 {
			want = float64(vid) + 0.5
		}
		return v.Type() == goatlang.TypeFloat64 && v.Float64() == want
	case "bool":
		return v.Type() == goatlang.TypeBool && v.Bool() == (vid%2 == 1)
	case "slice":
		if vid == 0 {
			return v.Len() == 0
		}
		if v.Len() != 1 {
			return false
		}
		e, _ := v.Get(goatlang.Int(0))
		return e.Int() == vid
	case "any":
		if vid == 0 || vid%3 == 0 {
			return v.IsNil() // the zero value of any is nil, and so is every third written value
		}
		if vid%3 == 1 {
			return v.Type() == goatlang.TypeInt32 && v.Int() == vid
		}
		return v.Type() == goatlang.TypeString && v.String() == fmt.Sprintf("v%d", vid)
	case "struct":
		if vid == 0 {
			return structNil(v)
		}
		if structNil(v) {
			return false
		}
		return v.GetAttr("A").Int() == vid
	}
	return false
}

func structNil(v goatlang.Value) (isNil bool) {
	defer func() {
		if recover() != nil {
			isNil = true
		}
	}()
	v.GetAttr("A")
	return false
}

// --- model ---------------------------------------------------------------------

type mCursor struct {
	id       int
	startGen map[int]int // keys live at start -> their generation
	yielded  map[[2]int]bool
	cur      int
	hasCur   bool
	compAt   int64
	done     bool
}

type mRun struct {
	p              *MPlan
	res            *core.Result
	h              *core.Host
	outer          goatlang.Value
	clone          goatlang.Value
	cdata          map[int]int // the kept clone: key -> vid (nil until the first clone)
	data           map[int]int // key -> vid
	gen            map[int]int // key -> liveness generation
	cursors        map[int]*mCursor
	live           []*mCursor
	items          map[int]*MItem
	shuffle        *core.PRNG
	abs            []string
	mutUnderCursor bool
}

func (run *mRun) fail(rule, key, format string, args ...any) {
	run.res.Fail("C10", rule, key, format, args...)
}

func (run *mRun) note(s string) {
	if len(run.abs) < 60 {
		run.abs = append(run.abs, s)
	}
}

func (run *mRun) onSet(key, vid int) {
	key = run.p.canon(key)
	if _, ok := run.data[key]; !ok {
		run.gen[key]++
		if run.gen[key] > 1 {
			run.h.C.Inc("reinsert")
		}
		if len(run.live) > 0 {
			run.h.C.Inc("insert_during_loop")
		}
	}
	run.data[key] = vid
	if len(run.live) > 0 {
		run.mutUnderCursor = true
	}
	run.note(fmt.Sprintf("s%d", len(run.live)))
}

func (run *mRun) onDel(key int) {
	key = run.p.canon(key)
	if _, ok := run.data[key]; ok && len(run.live) > 0 {
		run.mutUnderCursor = true
		for _, c := range run.live {
			g, was := c.startGen[key]
			switch {
			case c.hasCur && c.cur == key:
				run.h.C.Inc("delete_current")
			case was && c.yielded[[2]int{key, g}]:
				run.h.C.Inc("delete_behind_cursor")
			case was:
				run.h.C.Inc("delete_ahead_of_cursor")
			}
		}
	}
	delete(run.data, key)
	run.note(fmt.Sprintf("d%d", len(run.live)))
}

func (run *mRun) onGet(id, key int, v goatlang.Value, ok, withOk bool) {
	key = run.p.canon(key)
	vid, live := run.data[key]
	if !live {
		vid = 0
	}
	if withOk && ok != live {
		run.fail("C10/get", "ok", "op %d: comma-ok lookup of key %d says ok=%v, the key is live=%v", id, key, ok, live)
	}
	if !run.p.elemIs(v, vid) {
		what := fmt.Sprintf("the latest write (value id %d)", vid)
		if !live {
			what = "the zero value of the element type (key is missing)"
		}
		run.fail("C10/get", map[bool]string{true: "stale", false: "zero"}[live], "op %d: lookup of key %d returned %s, want %s", id, key, describe(v), what)
	}
	run.note("g")
}

// onMiss: a lookup through a missing outer key (a nil inner map) is the zero value of the innermost element type.
func (run *mRun) onMiss(id int, v goatlang.Value, ok, withOk bool) {
	if withOk && ok {
		run.fail("C10/get", "ok", "op %d: comma-ok lookup through a missing outer key says ok=true", id)
	}
	if !run.p.elemIs(v, 0) {
		run.fail("C10/get", "zero", "op %d: lookup through a missing outer key (nil inner map) returned %s, want the zero value of the element type", id, describe(v))
	}
	run.h.C.Inc("nested_miss")
	run.note("G")
}

func (run *mRun) onLen(id, n int) {
	if n != len(run.data) {
		run.fail("C10/get", "len", "op %d: len is %d, the map has %d live keys", id, n, len(run.data))
	}
	run.note("l")
}

// onKeys: maps.Keys (or the keys of maps.Clone) must be exactly the live keys, each once.
func (run *mRun) onKeys(id int, what string, ks goatlang.Value) {
	data := run.data
	if what == "the clone" {
		data = run.cdata
	}
	seen := map[int]int{}
	next := ks.Range()
	for {
		_, kv, ok := next()
		if !ok {
			break
		}
		k, known := run.p.keyOf(kv)
		if !known {
			run.fail("C10/live", "foreign-key", "op %d: %s returned %s, which was never a key of this map", id, what, describe(kv))
			return
		}
		seen[k]++
	}
	for k, n := range seen {
		if _, live := data[k]; !live {
			run.fail("C10/live", "deleted-key", "op %d: %s returned key %d, which is deleted", id, what, k)
		} else if n > 1 {
			run.fail("C10/once", "twice", "op %d: %s returned key %d %d times", id, what, k, n)
		}
	}
	for k := range data {
		if seen[k] == 0 {
			run.fail("C10/all", "missed", "op %d: %s does not contain the live key %d", id, what, k)
		}
	}
	run.h.C.Inc("maps_keys")
	if what == "maps.Clone" {
		run.cdata = map[int]int{}
		for k, v := range run.data {
			run.cdata[k] = v
		}
	}
	run.note("k")
}

func (run *mRun) onStart(c int) {
	cu := &mCursor{id: c, startGen: map[int]int{}, yielded: map[[2]int]bool{}, compAt: goatlang.VerifCompactions}
	for k := range run.data {
		cu.startGen[k] = run.gen[k]
	}
	run.cursors[c] = cu
	run.live = append(run.live, cu)
	if len(run.live) > 1 {
		run.h.C.Inc("nested_cursors")
	}
	run.note(fmt.Sprintf("S%d", len(run.live)))
}

func (run *mRun) onIter(c int, kv, vv goatlang.Value) {
	cu := run.cursors[c]
	if cu == nil {
		return
	}
	key, ok := run.p.keyOf(kv)
	if !ok {
		run.fail("C10/live", "foreign-key", "cursor %d yielded %s, which was never a key of this map", c, describe(kv))
		return
	}
	vid, live := run.data[key]
	if !live {
		run.fail("C10/live", "deleted-key", "cursor %d yielded key %d, which is deleted at that instant", c, key)
		return
	}
	if !run.p.elemIs(vv, vid) {
		run.fail("C10/live", "stale-value", "cursor %d yielded key %d with value %s, the current value is id %d", c, key, describe(vv), vid)
	}
	g := run.gen[key]
	if cu.yielded[[2]int{key, g}] {
		run.fail("C10/once", "twice", "cursor %d yielded key %d twice within one liveness interval (generation %d)", c, key, g)
	}
	cu.yielded[[2]int{key, g}] = true
	cu.cur, cu.hasCur = key, true
	if goatlang.VerifCompactions > cu.compAt {
		run.h.C.Inc("cursor_across_compaction")
		cu.compAt = goatlang.VerifCompactions
	}
	run.note("i")
}

func (run *mRun) finish(c int, exhausted bool) {
	cu := run.cursors[c]
	if cu == nil || cu.done {
		return
	}
	cu.done = true
	for i, l := range run.live {
		if l == cu {
			run.live = append(run.live[:i], run.live[i+1:]...)
			break
		}
	}
	if !exhausted {
		run.h.C.Inc("abandoned")
		run.note("B")
		return
	}
	run.h.C.Inc("exhausted")
	run.note("E")
	for k, g := range cu.startGen {
		if _, live := run.data[k]; live && run.gen[k] == g && !cu.yielded[[2]int{k, g}] {
			run.fail("C10/all", "missed", "cursor %d finished without visiting key %d, which was live during the whole loop", c, k)
		}
	}
}

// --- host driver -----------------------------------------------------------------

func (run *mRun) hostBlock(m goatlang.Value, items []MItem, cu *mCursor, iter int) {
	for i := range items {
		it := &items[i]
		if it.OnIter != 0 && it.OnIter != iter {
			continue
		}
		switch it.Kind {
		case "set":
			m.Set(run.p.keyValue(it.Key), run.p.elemValue(it.Vid))
			run.onSet(it.Key, it.Vid)
		case "del":
			m.Delete(run.p.keyValue(it.Key))
			run.onDel(it.Key)
		case "get":
			v, _ := m.Get(run.p.keyValue(it.Key))
			run.onGet(it.ID, it.Key, v, false, false)
		case "getok":
			v, ok := m.Get(run.p.keyValue(it.Key))
			run.onGet(it.ID, it.Key, v, ok, true)
		case "getmiss":
			if run.p.Nest == 0 {
				break
			}
			cur := run.outer
			for lvl := 1; lvl <= run.p.Nest; lvl++ {
				name := []string{"a", "b"}[lvl-1]
				if lvl == it.Miss || lvl == run.p.Nest && it.Miss > lvl {
					name = "zz"
				}
				cur, _ = cur.Get(goatlang.String(name))
			}
			v, ok := cur.Get(run.p.keyValue(it.Key))
			run.onMiss(it.ID, v, ok, true)
		case "len":
			run.onLen(it.ID, m.Len())
		case "keys":
			if r, err := run.h.Call("golang.org/x/exp/maps.Keys", 1, m); err == nil && len(r) == 1 {
				run.onKeys(it.ID, "maps.Keys", r[0])
			} else {
				run.fail("C10/get", "keys-failed", "maps.Keys failed: %v", err)
			}
		case "clone":
			if r, err := run.h.Call("golang.org/x/exp/maps.Clone", 1, m); err == nil && len(r) == 1 {
				if r2, err := run.h.Call("golang.org/x/exp/maps.Keys", 1, r[0]); err == nil && len(r2) == 1 {
					run.onKeys(it.ID, "maps.Clone", r2[0])
				}
				run.clone = r[0]
				if r[0].Len() != len(run.data) {
					run.fail("C10/get", "len", "op %d: the clone has %d entries, the map %d live keys", it.ID, r[0].Len(), len(run.data))
				}
			} else {
				run.fail("C10/get", "clone-failed", "maps.Clone failed: %v", err)
			}
		case "cset":
			if run.cdata != nil {
				run.clone.Set(run.p.keyValue(it.Key), run.p.elemValue(it.Vid))
				run.cdata[run.p.canon(it.Key)] = it.Vid
				run.h.C.Inc("clone_written")
				run.note("c")
			}
		case "cdel":
			if run.cdata != nil {
				run.clone.Delete(run.p.keyValue(it.Key))
				delete(run.cdata, run.p.canon(it.Key))
				run.note("c")
			}
		case "ckeys":
			if run.cdata != nil {
				if r, err := run.h.Call("golang.org/x/exp/maps.Keys", 1, run.clone); err == nil && len(r) == 1 {
					run.onKeys(it.ID, "the clone", r[0])
				}
			}
		case "curset":
			if cu != nil && cu.hasCur {
				m.Set(run.rawKey(cu.cur), run.p.elemValue(it.Vid))
				run.onSet(cu.cur, it.Vid)
			}
		case "curdel":
			if cu != nil && cu.hasCur {
				m.Delete(run.rawKey(cu.cur))
				run.onDel(cu.cur)
			}
		case "loop":
			run.onStart(it.Cursor)
			next := m.Range()
			n := 0
			exhausted := false
			for {
				k, v, ok := next()
				if !ok {
					exhausted = true
					break
				}
				n++
				run.onIter(it.Cursor, k, v)
				if it.Max != 0 && n > it.Max {
					break
				}
				run.hostBlock(m, it.Body, run.cursors[it.Cursor], n)
				if !run.res.OK() {
					return
				}
			}
			run.finish(it.Cursor, exhausted)
		}
	}
}

// rawKey: a key index that canonicalises to the model key.
func (run *mRun) rawKey(model int) goatlang.Value { return run.p.keyValue(model) }

// --- script driver ----------------------------------------------------------------

// mx is the expression that names the map under test in the script.
func (p *MPlan) mx() string { return []string{"m", `o["a"]`, `o["a"]["b"]`}[p.Nest] }

// mtype wraps the map type in Nest levels of map[string].
func (p *MPlan) mtype(inner string) string { return strings.Repeat("map[string]", p.Nest) + inner }

// mwrap gives the value of the outermost variable whose innermost map is rhs.
func (p *MPlan) mwrap(inner, rhs string, elide bool) string {
	switch p.Nest {
	case 1:
		return fmt.Sprintf("map[string]%s{\"a\": %s}", inner, rhs)
	case 2:
		if elide {
			return fmt.Sprintf("map[string]map[string]%s{\"a\": {\"b\": %s}}", inner, rhs)
		}
		return fmt.Sprintf("map[string]map[string]%s{\"a\": map[string]%s{\"b\": %s}}", inner, inner, rhs)
	}
	return rhs
}

func (p *MPlan) renderItems(b *strings.Builder, items []MItem, ind string, cur int) {
	lnRaw := func(f string, a ...any) { fmt.Fprintf(b, ind+f+"\n", a...) }
	ln := func(f string, a ...any) {
		if p.Nest > 0 {
			f = mRe.ReplaceAllLiteralString(f, p.mx())
		}
		lnRaw(f, a...)
	}
	for i := range items {
		it := &items[i]
		open := ""
		if it.OnIter != 0 && cur != 0 {
			ln("if n%d == %d {", cur, it.OnIter)
			open = "}"
			ind += "\t"
		} else if it.OnIter != 0 {
			continue
		}
		switch it.Kind {
		case "set":
			ln("m[%s] = %s; host.Op(%d)", p.keyLit(it.Key), p.elemLit(it.Vid), it.ID)
		case "del":
			ln("delete(m, %s); host.Op(%d)", p.keyLit(it.Key), it.ID)
		case "get":
			ln("host.Get(%d, m[%s])", it.ID, p.keyLit(it.Key))
		case "getok":
			ln("g%d, o%d := m[%s]", it.ID, it.ID, p.keyLit(it.Key))
			ln("host.GetOk(%d, g%d, o%d)", it.ID, it.ID, it.ID)
		case "getmiss":
			if p.Nest == 0 {
				break
			}
			path := ""
			for lvl := 1; lvl <= p.Nest; lvl++ {
				name := []string{"a", "b"}[lvl-1]
				if lvl == it.Miss || lvl == p.Nest && it.Miss > lvl {
					name = "zz"
				}
				path += fmt.Sprintf("[%q]", name)
			}
			if it.ID%2 == 0 {
				lnRaw("host.Miss(%d, o%s[%s])", it.ID, path, p.keyLit(it.Key))
			} else {
				lnRaw("g%d, o%d := o%s[%s]", it.ID, it.ID, path, p.keyLit(it.Key))
				lnRaw("host.MissOk(%d, g%d, o%d)", it.ID, it.ID, it.ID)
			}
		case "len":
			ln("host.Len(%d, len(m))", it.ID)
		case "keys":
			ln("host.Keys(%d, 0, maps.Keys(m))", it.ID)
		case "clone":
			ln("c = maps.Clone(m); host.Keys(%d, 1, maps.Keys(c))", it.ID)
		case "cset":
			lnRaw("if c != nil { c[%s] = %s; host.Op(%d) }", p.keyLit(it.Key), p.elemLit(it.Vid), it.ID)
		case "cdel":
			lnRaw("if c != nil { delete(c, %s); host.Op(%d) }", p.keyLit(it.Key), it.ID)
		case "ckeys":
			lnRaw("if c != nil { host.Keys(%d, 2, maps.Keys(c)) }", it.ID)
		case "curset":
			if cur != 0 {
				ln("m[k%d] = %s; host.Op(%d)", cur, p.elemLit(it.Vid), it.ID)
			}
		case "curdel":
			if cur != 0 {
				ln("delete(m, k%d); host.Op(%d)", cur, it.ID)
			}
		case "loop":
			c := it.Cursor
			ln("n%d := 0", c)
			ln("b%d := 0", c)
			ln("host.Start(%d)", c)
			ln("for k%d, v%d := range m {", c, c)
			ln("\tn%d = n%d + 1", c, c)
			ln("\thost.Iter(%d, k%d, v%d)", c, c, c)
			if it.Max != 0 {
				ln("\tif n%d > %d {", c, it.Max)
				ln("\t\tb%d = 1", c)
				ln("\t\tbreak")
				ln("\t}")
			}
			p.renderItems(b, it.Body, ind+"\t", c)
			ln("}")
			ln("host.End(%d, b%d)", c, c)
		}
		if open != "" {
			ind = ind[:len(ind)-1]
			ln("}")
		}
	}
}

func (p *MPlan) render() string {
	var b strings.Builder
	_, _, ks, es := p.types()
	b.WriteString("package main\nimport \"host\"\nimport \"golang.org/x/exp/maps\"\ntype T struct { A int }\nvar negZero = host.NegZero()\n")
	inner := fmt.Sprintf("map[%s]%s", ks, es)
	mvar := "m"
	if p.Nest > 0 {
		mvar = "o"
	}
	fmt.Fprintf(&b, "var c map[%s]%s\n", ks, es)
	elide := p.Seed%2 == 0
	decl := fmt.Sprintf("var %s = %s\n", mvar, p.mwrap(inner, map[bool]string{true: "{}", false: inner + "{}"}[elide && p.Nest > 0], elide))
	if p.NilStart > 0 {
		decl = fmt.Sprintf("var %s %s\n", mvar, p.mtype(inner))
	}
	var body strings.Builder
	if p.Local {
		body.WriteString("\t" + decl)
	} else {
		b.WriteString(decl)
	}
	if p.Literal && len(p.Initial) > 0 {
		// computed keys (variables), so that repeated keys are legal Go: the last pair wins
		var pairs []string
		for i, k := range p.Initial {
			kl := p.keyLit(k)
			if p.KeyType == "float64" && k == 5 {
				kl = "3000000000.0" // a variable needs the float form: an integer constant would make it an int
			}
			fmt.Fprintf(&body, "\tkv%d := %s\n", i, kl)
			pairs = append(pairs, fmt.Sprintf("kv%d: %s", i, p.elemLit(2000+i)))
		}
		if p.Nest > 0 && p.Seed%3 == 0 {
			fmt.Fprintf(&body, "\t%s = %s{%s}\n", p.mx(), inner, strings.Join(pairs, ", "))
		} else {
			fmt.Fprintf(&body, "\t%s = %s\n", mvar, p.mwrap(inner, map[bool]string{true: "", false: inner}[elide && p.Nest > 0]+"{"+strings.Join(pairs, ", ")+"}", elide))
		}
		for i, k := range p.Initial {
			fmt.Fprintf(&body, "\thost.InitLit(%d, %d)\n", k, 2000+i)
		}
	} else {
		for _, k := range p.Initial {
			fmt.Fprintf(&body, "\t%s[%s] = %s; host.Init(%d)\n", p.mx(), p.keyLit(k), p.elemLit(1000+k), k)
		}
	}
	if p.NilStart > 0 {
		// only reads run against the nil map (a write to a nil map is an error in Go as well)
		n := 0
		for n < p.NilStart && n < len(p.Items) {
			k := p.Items[n].Kind
			if k == "loop" && len(p.Items[n].Body) > 0 || k == "set" || k == "curset" || k == "curdel" || k == "clone" {
				break
			}
			n++
		}
		p.renderItems(&body, p.Items[:n], "\t", 0)
		fmt.Fprintf(&body, "\t%s = %s\n", mvar, p.mwrap(inner, map[bool]string{true: "{}", false: inner + "{}"}[elide && p.Nest > 0], elide))
		p.renderItems(&body, p.Items[n:], "\t", 0)
	} else {
		p.renderItems(&body, p.Items, "\t", 0)
	}
	text := body.String()
	if p.OneLine {
		lines := strings.Split(strings.TrimSpace(text), "\n")
		for i := range lines {
			lines[i] = strings.TrimSpace(lines[i])
		}
		text = "\t" + strings.Join(lines, "; ") + "\n"
	}
	b.WriteString("func run() {\n" + text + "}\n")
	return b.String()
}

func (run *mRun) index(items []MItem) {
	for i := range items {
		run.items[items[i].ID] = &items[i]
		run.index(items[i].Body)
	}
}

func (run *mRun) natives(vm *goatlang.VM) {
	vm.Set("host.NegZero", goatlang.NewFunc(0, 1, func(v *goatlang.VM) goatlang.Value { return goatlang.Float64(math.Copysign(0, -1)) }))
	vm.Set("host.Init", goatlang.NewFunc(1, 0, func(v *goatlang.VM, a []goatlang.Value) { run.onSet(a[0].Int(), 1000+a[0].Int()) }))
	vm.Set("host.InitLit", goatlang.NewFunc(2, 0, func(v *goatlang.VM, a []goatlang.Value) { run.onSet(a[0].Int(), a[1].Int()) }))
	vm.Set("host.Op", goatlang.NewFunc(1, 0, func(v *goatlang.VM, a []goatlang.Value) {
		it := run.items[a[0].Int()]
		if it == nil {
			return
		}
		var cu *mCursor
		if len(run.live) > 0 {
			cu = run.live[len(run.live)-1]
		}
		switch it.Kind {
		case "set":
			run.onSet(it.Key, it.Vid)
		case "del":
			run.onDel(it.Key)
		case "cset":
			if run.cdata != nil {
				run.cdata[run.p.canon(it.Key)] = it.Vid
				run.h.C.Inc("clone_written")
				run.note("c")
			}
		case "cdel":
			if run.cdata != nil {
				delete(run.cdata, run.p.canon(it.Key))
				run.note("c")
			}
		case "curset":
			if cu != nil && cu.hasCur {
				run.onSet(cu.cur, it.Vid)
			}
		case "curdel":
			if cu != nil && cu.hasCur {
				run.onDel(cu.cur)
			}
		}
	}))
	vm.Set("host.Get", goatlang.NewFunc(2, 0, func(v *goatlang.VM, a []goatlang.Value) {
		if it := run.items[a[0].Int()]; it != nil {
			run.onGet(it.ID, it.Key, a[1], false, false)
		}
	}))
	vm.Set("host.GetOk", goatlang.NewFunc(3, 0, func(v *goatlang.VM, a []goatlang.Value) {
		if it := run.items[a[0].Int()]; it != nil {
			run.onGet(it.ID, it.Key, a[1], a[2].Bool(), true)
		}
	}))
	vm.Set("host.Miss", goatlang.NewFunc(2, 0, func(v *goatlang.VM, a []goatlang.Value) { run.onMiss(a[0].Int(), a[1], false, false) }))
	vm.Set("host.MissOk", goatlang.NewFunc(3, 0, func(v *goatlang.VM, a []goatlang.Value) { run.onMiss(a[0].Int(), a[1], a[2].Bool(), true) }))
	vm.Set("host.Keys", goatlang.NewFunc(3, 0, func(v *goatlang.VM, a []goatlang.Value) {
		run.onKeys(a[0].Int(), map[int]string{0: "maps.Keys", 1: "maps.Clone", 2: "the clone"}[a[1].Int()], a[2])
	}))
	vm.Set("host.Len", goatlang.NewFunc(2, 0, func(v *goatlang.VM, a []goatlang.Value) { run.onLen(a[0].Int(), a[1].Int()) }))
	vm.Set("host.Start", goatlang.NewFunc(1, 0, func(v *goatlang.VM, a []goatlang.Value) { run.onStart(a[0].Int()) }))
	vm.Set("host.Iter", goatlang.NewFunc(3, 0, func(v *goatlang.VM, a []goatlang.Value) { run.onIter(a[0].Int(), a[1], a[2]) }))
	vm.Set("host.End", goatlang.NewFunc(2, 0, func(v *goatlang.VM, a []goatlang.Value) { run.finish(a[0].Int(), a[1].Int() == 0) }))
}

func (mapiter) Execute(plan any, keep bool) *core.Result {
	p := plan.(*MPlan)
	res := &core.Result{Counters: core.Counters{}}
	hist := core.NewHistory(keep)
	run := &mRun{p: p, res: res, data: map[int]int{}, gen: map[int]int{}, cursors: map[int]*mCursor{}, items: map[int]*MItem{}, shuffle: core.NewPRNG(core.Mix(p.Seed, 0x5f))}
	run.index(p.Items)
	compBefore := goatlang.VerifCompactions
	goatlang.VerifShuffle = func(n int, swap func(i, j int)) {
		for i := n - 1; i > 0; i-- {
			swap(i, run.shuffle.Intn(i+1))
		}
	}
	goatlang.VerifOptimizeOff = p.OptimizeOff
	defer func() { goatlang.VerifShuffle = nil; goatlang.VerifOptimizeOff = false; goatlang.VerifSetBudget(-1) }()
	var disk *core.SimDisk
	src := ""
	if p.Driver == "script" {
		src = p.render()
		disk = core.NewSimDisk([]core.DiskFile{{Path: "main/main.go", Data: []byte(src)}}, hist)
	} else {
		disk = core.NewSimDisk(nil, hist)
	}
	disk.Mute = true
	run.h = core.NewHost(p.Seed, disk, hist, run.natives)
	run.h.Budget = core.MaxBudget
	run.h.C.Inc("driver_" + p.Driver)
	if p.OneLine {
		run.h.C.Inc("one_line_script")
	}
	if p.NilStart > 0 && p.Driver == "script" {
		run.h.C.Inc("nil_map_start")
	}
	if p.Nest > 0 && p.Driver == "script" {
		run.h.C.Inc("nested_map")
	}
	if p.Local && p.Driver == "script" {
		run.h.C.Inc("local_map_variable")
	}
	if p.Literal {
		seenK := map[int]bool{}
		for _, k := range p.Initial {
			if seenK[p.canon(k)] {
				run.h.C.Inc("literal_with_repeated_key")
				break
			}
			seenK[p.canon(k)] = true
		}
	}
	if p.Driver == "script" {
		if err := run.h.Load("main"); err != nil {
			res.Fail("HARNESS", "generator", "script", "the generated script does not load: %v\n%s", err, src)
		} else if _, err := run.h.Call("main.run", 0); err != nil && !core.IsBudget(err) && res.OK() {
			run.fail("C10/get", "script-failed", "the map script failed: %s", firstLine(err.Error()))
		}
	} else {
		kt, et, _, _ := p.types()
		var init []goatlang.Value
		if p.Literal {
			for i, k := range p.Initial {
				init = append(init, p.keyValue(k), p.elemValue(2000+i))
			}
		}
		m := goatlang.NewMap(kt, et, init)
		if p.Nest > 0 {
			// the map under test sits 1-2 levels inside string-keyed maps, and is fetched back through them
			t := goatlang.TypeMap | kt<<8 | et<<16 // Value.Type() answers the base type only; composite types are packed elem<<16 | key<<8 | base
			inner := m
			for lvl := p.Nest; lvl >= 1; lvl-- {
				o := goatlang.NewMap(goatlang.TypeString, t, nil)
				o.Set(goatlang.String([]string{"a", "b"}[lvl-1]), inner)
				inner, t = o, goatlang.TypeMap|goatlang.TypeString<<8|t<<16
			}
			run.outer = inner
			cur := inner
			for lvl := 1; lvl <= p.Nest; lvl++ {
				cur, _ = cur.Get(goatlang.String([]string{"a", "b"}[lvl-1]))
			}
			m = cur
			run.h.C.Inc("nested_map")
		}
		for i, k := range p.Initial {
			if p.Literal {
				run.onSet(k, 2000+i)
				continue
			}
			m.Set(p.keyValue(k), p.elemValue(1000+k))
			run.onSet(k, 1000+k)
		}
		func() {
			defer func() {
				if r := recover(); r != nil {
					run.fail("C10/get", "panic", "the Value API panicked: %v", r)
				}
			}()
			run.hostBlock(m, p.Items, nil, 0)
		}()
	}
	for i, esc := range run.h.Escapes {
		res.Fail("C10", "C10/get", "panic", "an entry point panicked (%s) [raised at %s]", esc, run.h.EscapeSites[i])
	}
	res.Counters.Merge(run.h.C)
	res.Counters.Add("compactions", goatlang.VerifCompactions-compBefore)
	res.Nontrivial = run.mutUnderCursor
	res.Abstract = p.Driver + "|" + p.KeyType + "|" + strings.Join(run.abs, "") + fmt.Sprintf("|c%d", goatlang.VerifCompactions-compBefore)
	for _, ev := range run.abs {
		hist.Add("model", "step", ev)
	}
	res.Hash = hist.Hash()
	res.History = hist
	res.Steps = len(run.abs)
	return res
}

func mDropItems(items []MItem) [][]MItem {
	var out [][]MItem
	for _, c := range core.DropChunks(items, 0) {
		out = append(out, c)
	}
	for i := range items {
		if items[i].Kind != "loop" {
			continue
		}
		for _, c := range mDropItems(items[i].Body) {
			cp := append([]MItem{}, items...)
			n := cp[i]
			n.Body = c
			cp[i] = n
			out = append(out, cp)
		}
		if items[i].Max != 0 {
			cp := append([]MItem{}, items...)
			n := cp[i]
			n.Max = 0
			cp[i] = n
			out = append(out, cp)
		}
	}
	return out
}

func (mapiter) Shrink(plan any) []func() any {
	p := plan.(*MPlan)
	var out []func() any
	mod := func(f func(q *MPlan)) {
		out = append(out, func() any {
			q := core.CloneJSON(p)
			f(q)
			return q
		})
	}
	for _, c := range mDropItems(p.Items) {
		c := c
		mod(func(q *MPlan) { q.Items = c })
	}
	for _, c := range core.DropChunks(p.Initial, 0) {
		c := c
		mod(func(q *MPlan) { q.Initial = c })
	}
	if p.Driver == "script" && p.ElemType != "struct" {
		mod(func(q *MPlan) { q.Driver = "host" })
	}
	if p.ElemType != "int" {
		mod(func(q *MPlan) { q.ElemType = "int" })
	}
	if p.KeyType != "int32" && p.KeyType != "bool" {
		mod(func(q *MPlan) { q.KeyType = "int32" })
	}
	if p.OptimizeOff {
		mod(func(q *MPlan) { q.OptimizeOff = false })
	}
	if p.NilStart > 0 {
		mod(func(q *MPlan) { q.NilStart = 0 })
	}
	if p.OneLine {
		mod(func(q *MPlan) { q.OneLine = false })
	}
	if p.Literal {
		mod(func(q *MPlan) { q.Literal = false })
	}
	if p.Local {
		mod(func(q *MPlan) { q.Local = false })
	}
	if p.Nest > 0 {
		mod(func(q *MPlan) { q.Nest = 0 })
		mod(func(q *MPlan) { q.Nest = 1 })
	}
	return out
}
