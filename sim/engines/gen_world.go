package engines

import (
	"fmt"
	"sort"
	"strings"

	"goatsim/core"
)

// A loader world is an import graph of script packages laid out on a disk, in
// one or more versions, whose top-level code and init functions report
// markers through the native host.Mark. The generator knows, for every file
// version, which package it belongs to, what it imports and which markers it
// emits, so an oracle never has to parse goatlang source.

type WorldOpts struct {
	MaxPkgs  int
	Versions int
	Decoys   bool
	Natives  string  // "host" (default) or "none": whether files use host.Mark
	Cyclic   bool    // add one back edge
	Conflict bool    // give one package two different package clauses
	Edges    [][]int // explicit import graph (node 0 is main); overrides MaxPkgs/Cyclic
	Plain    bool    // full-path layout, one file per package, no extras
}

type LFileVer struct {
	Data    string   `json:"data"`
	Imports []string `json:"imports,omitempty"` // import paths of script packages
	Marks   []string `json:"marks,omitempty"`   // in execution order within the file: top-level first, init last
	TopN    int      `json:"top_n,omitempty"`   // how many of Marks are top-level (the rest are init markers)
}

type LFile struct {
	Name     string     `json:"name"`
	Test     bool       `json:"test,omitempty"`       // _test.go: ignored
	Excluded bool       `json:"excluded,omitempty"`   // //go:build false under {goat}
	Cons     string     `json:"constraint,omitempty"` // the //go:build line, if any
	Lead     string     `json:"lead,omitempty"`       // blank lines / indentation before it
	Vers     []LFileVer `json:"versions"`
}

type LPkg struct {
	Path   string   `json:"path"` // import path
	Name   string   `json:"name"` // package clause
	Dir    string   `json:"dir"`  // directory on disk
	Layout string   `json:"layout"`
	Files  []*LFile `json:"files"`
}

type LWorld struct {
	Pkgs     []*LPkg `json:"pkgs"`
	Versions int     `json:"versions"`
	Cyclic   bool    `json:"cyclic,omitempty"`
	Conflict bool    `json:"conflict,omitempty"`
	// Ghosts are directories that hold nothing but _test.go files, at the places where an imported
	// path is searched: such an import is "no script package", and nothing in those files may run.
	Ghosts []core.DiskFile `json:"ghosts,omitempty"`
}

var wDomains = []string{"", "", "a/", "example.com/x/", "github.com/u/r/", "deep/er/path/", "db_testutil/", "x_test/y/"}
var wFileNames = []string{"a.go", "b.go", "z.go", "0.go", "main.go", "x_1.go", "util.go", "A.go", "m-n.go", "lib.go", "q.go", "_u.go", "a_testdata.go", "zz_test_hooks.go", "tester.go", "my_test.go.go"}

// what may precede a //go:build line without changing its meaning
var wConsLead = []string{"", "", "", "\n", "\n\n", "  ", "\t", " \n\t"}

// constraint expressions with their value under {goat: true, everything else false}
var wConsTrue = []string{"goat", "!linux", "goat || linux", "goat && !ignore", "!(linux && goat)", "!ignore", "goat || ignore", "(goat)", "!go1.21", "goat && !go1.18", "!cgo", "!gc", "goat && !unix", "!goat2", "!goa"}
var wConsFalse = []string{"!goat", "linux", "ignore", "goat && linux", "!goat || windows", "!(goat || linux)", "linux || windows", "goat && ignore", "go1.21", "goat && go1.18", "go1.1", "cgo", "gc", "unix", "amd64 || arm64", "goat2", "Goat", "goa"}

func init() {
	// constraint lines well beyond 128 bytes whose last term decides
	wConsTrue = append(wConsTrue, strings.Repeat("linux || ", 16)+"goat", strings.Repeat("!goat || ", 15)+"!windows")
	wConsFalse = append(wConsFalse, "goat && "+strings.Repeat("!linux && ", 14)+"!goat", strings.Repeat("windows || ", 13)+"plan9")
}

func alias(path string) string {
	if i := strings.LastIndexByte(path, '/'); i >= 0 {
		return path[i+1:]
	}
	return path
}

// GenWorld builds a random loader world.
func GenWorld(r *core.PRNG, o WorldOpts) *LWorld {
	if o.Versions < 1 {
		o.Versions = 1
	}
	useHost := o.Natives != "none"
	n := 1 + r.Intn(o.MaxPkgs)
	if o.Cyclic && n < 2 {
		n = 2
	}
	if o.Edges != nil {
		n = len(o.Edges)
	}
	w := &LWorld{Versions: o.Versions, Cyclic: o.Cyclic, Conflict: o.Conflict}
	for i := 0; i < n; i++ {
		p := &LPkg{}
		if i == 0 {
			p.Path, p.Name = "main", "main"
		} else {
			leaf := fmt.Sprintf("lib%d", i)
			p.Path = core.Pick(r, wDomains) + leaf
			p.Name = leaf
			if r.Chance(1, 6) {
				p.Name = fmt.Sprintf("pk%d", i) // clause differs from the path
			}
		}
		parts := strings.Split(p.Path, "/")
		switch k := r.Intn(6); {
		case i == 0 || k < 3 || o.Plain:
			p.Dir, p.Layout = p.Path, "full"
		case k < 5:
			p.Dir, p.Layout = "vendor/"+p.Path, "vendor"
		default:
			cut := r.Intn(len(parts))
			p.Dir, p.Layout = strings.Join(parts[cut:], "/"), "short"
			if cut == 0 {
				p.Layout = "full"
			}
		}
		w.Pkgs = append(w.Pkgs, p)
	}
	// edges i -> j for i < j; every package but main gets at least one importer
	edges := make([][]int, n)
	if o.Edges != nil {
		for i := range o.Edges {
			edges[i] = append([]int{}, o.Edges[i]...)
		}
	}
	for j := 1; j < n && o.Edges == nil; j++ {
		i := r.Intn(j)
		edges[i] = append(edges[i], j)
	}
	for i := 0; i < n; i++ {
		for j := i + 1; j < n; j++ {
			if o.Edges == nil && r.Chance(1, 4) && !containsInt(edges[i], j) {
				edges[i] = append(edges[i], j)
			}
		}
		sort.Ints(edges[i])
	}
	if o.Cyclic && o.Edges == nil {
		// one back edge from some package to an ancestor-or-self
		j := r.Intn(n)
		i := r.Intn(j + 1)
		if n > 1 && j == 0 {
			j, i = 1, 0
			if !containsInt(edges[0], 1) {
				edges[0] = append(edges[0], 1)
			}
		}
		if !containsInt(edges[j], i) {
			edges[j] = append(edges[j], i)
		}
		// make sure the cycle is reachable from main: i <= j and every package has an importer chain from main
	}
	conflictPkg := -1
	if o.Conflict {
		conflictPkg = r.Intn(n)
	}
	for i, p := range w.Pkgs {
		nf := 1 + r.Intn(4)
		if o.Plain {
			nf = 1
		}
		names := r.Perm(len(wFileNames))
		// distribute this package's imports over its files
		for f := 0; f < nf; f++ {
			lf := &LFile{Name: wFileNames[names[f]]}
			if r.Chance(1, 5) {
				lf.Cons = "//go:build " + core.Pick(r, wConsTrue)
				lf.Lead = core.Pick(r, wConsLead)
			}
			p.Files = append(p.Files, lf)
		}
		for v := 0; v < o.Versions; v++ {
			perFile := make([][]int, nf)
			for _, j := range edges[i] {
				f := r.Intn(nf)
				perFile[f] = append(perFile[f], j)
				if r.Chance(1, 5) { // the same import in a second file
					g := r.Intn(nf)
					if g != f {
						perFile[g] = append(perFile[g], j)
					}
				}
			}
			for f, lf := range p.Files {
				lf.Vers = append(lf.Vers, w.genFile(r, p, lf, f, v, perFile[f], useHost, false, f == 0, conflictPkg == i && f == nf-1 && nf > 1))
			}
		}
		if conflictPkg == i && nf == 1 {
			// need a second file to carry the conflicting clause
			lf := &LFile{Name: "zz_conflict.go"}
			for v := 0; v < o.Versions; v++ {
				lf.Vers = append(lf.Vers, w.genFile(r, p, lf, 1, v, nil, useHost, false, false, true))
			}
			p.Files = append(p.Files, lf)
		}
		if o.Decoys && conflictPkg != i && r.Chance(1, 4) {
			// a file that holds nothing but the package clause and comes first in name order (doc.go)
			lf := &LFile{Name: "0-doc.go"}
			for v := 0; v < o.Versions; v++ {
				lf.Vers = append(lf.Vers, LFileVer{Data: "// Package " + p.Name + " is documented here.\npackage " + p.Name + "\n"})
			}
			p.Files = append(p.Files, lf)
		}
		if o.Decoys {
			if r.Chance(1, 2) {
				lf := &LFile{Name: core.Pick(r, []string{"a_test.go", "main_test.go", "x_test.go"}), Test: true}
				external := r.Chance(1, 3) // an external test package: clause <name>_test
				for v := 0; v < o.Versions; v++ {
					fv := w.genFile(r, p, lf, 90, v, nil, useHost, true, false, false)
					if external {
						fv.Data = strings.Replace(fv.Data, "package "+p.Name+"\n", "package "+p.Name+"_test\n", 1)
					}
					lf.Vers = append(lf.Vers, fv)
				}
				p.Files = append(p.Files, lf)
			}
			if useHost && i > 0 && r.Chance(1, 3) {
				// another package of the same name at a place that is searched LATER than where the
				// real one lives: the first match wins, this one must never run
				parts := strings.Split(p.Path, "/")
				cands := []string{"vendor/" + p.Path, p.Path}
				for k := 1; k < len(parts); k++ {
					cands = append(cands, strings.Join(parts[k:], "/"))
				}
				at := -1
				for k, c := range cands {
					if c == p.Dir {
						at = k
					}
				}
				if at >= 0 && at+1 < len(cands) {
					d := cands[at+1+r.Intn(len(cands)-at-1)]
					m := fmt.Sprintf("DECOY:%s/shadow.go/top0", d)
					w.Ghosts = append(w.Ghosts, core.DiskFile{Path: d + "/shadow.go", Data: []byte(fmt.Sprintf("package %s\nimport \"host\"\nvar shadowed = host.Mark(%q)\nfunc Use%d() int { return -1 }\nfunc init() { host.Mark(%q) }\n", p.Name, m, i, strings.Replace(m, "/top0", "/init0", 1)))})
				}
			}
			if r.Chance(1, 2) {
				lf := &LFile{Name: core.Pick(r, []string{"excl.go", "c_linux.go", "aa.go", "zz.go"}), Excluded: true, Cons: "//go:build " + core.Pick(r, wConsFalse), Lead: core.Pick(r, wConsLead)}
				for v := 0; v < o.Versions; v++ {
					lf.Vers = append(lf.Vers, w.genFile(r, p, lf, 91, v, nil, useHost, true, false, false))
				}
				p.Files = append(p.Files, lf)
			}
		}
	}
	return w
}

func containsInt(xs []int, x int) bool {
	for _, y := range xs {
		if y == x {
			return true
		}
	}
	return false
}

func (w *LWorld) genFile(r *core.PRNG, p *LPkg, lf *LFile, fidx, ver int, deps []int, useHost, decoy, first, conflict bool) LFileVer {
	var fv LFileVer
	var lines []string
	if lf.Cons != "" {
		lines = append(lines, lf.Lead+lf.Cons, "")
	}
	name := p.Name
	if conflict {
		name = p.Name + core.Pick(r, []string{"other", "_test", "x"})
	}
	lines = append(lines, "package "+name)
	if useHost {
		lines = append(lines, `import "host"`)
	}
	if r.Chance(1, 3) {
		lines = append(lines, `import "fmt"`)
	}
	if r.Chance(1, 8) {
		lines = append(lines, fmt.Sprintf(`import "nowhere/none%d"`, fidx))
	}
	if useHost && !decoy && r.Chance(1, 8) {
		pi := 0
		for i, q := range w.Pkgs {
			if q == p {
				pi = i
			}
		}
		leaf := fmt.Sprintf("tonly%d_%d", pi, fidx)
		path := core.Pick(r, []string{"", "example.com/g/", "t/"}) + leaf
		lines = append(lines, fmt.Sprintf("import %q", path))
		have := false
		for _, g := range w.Ghosts {
			have = have || strings.HasPrefix(g.Path, leaf+"/") || strings.Contains(g.Path, "/"+leaf+"/")
		}
		if !have {
			dirs := []string{leaf}
			if r.Chance(1, 3) {
				dirs = []string{path}
			}
			if r.Chance(1, 4) {
				dirs = append(dirs, "vendor/"+path)
			}
			for _, d := range dirs {
				for k, fn := range []string{"x_test.go", "only_test.go"}[:1+r.Intn(2)] {
					m := fmt.Sprintf("DECOY:%s/%s/top%d", d, fn, k)
					w.Ghosts = append(w.Ghosts, core.DiskFile{Path: d + "/" + fn, Data: []byte(fmt.Sprintf("package %s\nimport \"host\"\nvar g%d = host.Mark(%q)\nfunc init() { host.Mark(%q) }\n", leaf, k, m, strings.Replace(m, "/top", "/init", 1)))})
				}
			}
		}
	}
	depAlias := map[int]string{}
	for _, j := range deps {
		if _, dup := depAlias[j]; dup {
			continue
		}
		q := w.Pkgs[j]
		if r.Chance(1, 8) {
			// a blank import: the package is initialised, nothing of it is used here
			lines = append(lines, fmt.Sprintf("import ( _ %q )", q.Path))
			depAlias[j] = ""
			fv.Imports = append(fv.Imports, q.Path)
			continue
		}
		if r.Chance(1, 4) {
			a := fmt.Sprintf("al%d", j)
			lines = append(lines, fmt.Sprintf("import ( %s %q )", a, q.Path)) // goatlang accepts an alias only in the block form
			depAlias[j] = a
		} else {
			switch r.Intn(8) {
			case 0:
				lines = append(lines, "import `"+q.Path+"`") // a raw string literal is a string literal
			case 1:
				lines = append(lines, fmt.Sprintf("import \"\\x%02x%s\"", q.Path[0], q.Path[1:])) // an escape in the path
			default:
				lines = append(lines, fmt.Sprintf("import %q", q.Path))
			}
			depAlias[j] = alias(q.Path)
		}
		fv.Imports = append(fv.Imports, q.Path)
	}
	tag := "X"
	if decoy {
		tag = "DECOY"
	}
	mark := func(kind string, k int) string {
		return fmt.Sprintf("%s:%s/%s/%s%d@v%d", tag, p.Path, lf.Name, kind, k, ver)
	}
	var tops, inits []string
	ntop := r.Intn(3)
	if decoy {
		ntop = 1
	}
	var body []string
	for k := 0; k < ntop; k++ {
		m := mark("top", k)
		tops = append(tops, m)
		if useHost {
			switch r.Intn(5) {
			case 0, 1:
				body = append(body, fmt.Sprintf("var v%d_%d = host.Mark(%q)", fidx, k, m))
			case 2:
				body = append(body, fmt.Sprintf("host.Mark(%q)", m))
			default:
				// package-level code with block-scoped variables (it runs once, like any other)
				n := 1 + r.Intn(3)
				for j := 0; j < n; j++ {
					call := fmt.Sprintf("sink%d_%d = sink%d_%d + 1", fidx, k, fidx, k)
					if j == 0 && n > 1 {
						body = append(body, fmt.Sprintf("var sink%d_%d = 0", fidx, k))
					}
					if j == n-1 {
						call = fmt.Sprintf("host.Mark(%q)", m)
					}
					v := fmt.Sprintf("b%d_%d_%d", fidx, k, j)
					body = append(body, core.Pick(r, []string{
						fmt.Sprintf("if %s := 1; %s > 0 { %s }", v, v, call),
						fmt.Sprintf("for %s := 0; %s < 1; %s++ { %s }", v, v, v, call),
						fmt.Sprintf("for _, %s := range []int{7} { if %s > 0 { %s } }", v, v, call),
						fmt.Sprintf("for %s, w%s := range []int{7} { if %s + w%s > 0 { %s } }", v, v, v, v, call),
					}))
				}
			}
		} else {
			body = append(body, fmt.Sprintf("var v%d_%d = %d", fidx, k, k))
		}
	}
	// a dependency is used at initialisation time: this fails at run time if it
	// has not been initialised, and at compile time if it was not loaded
	keys := make([]int, 0, len(depAlias))
	for j := range depAlias {
		keys = append(keys, j)
	}
	sort.Ints(keys)
	for _, j := range keys {
		if depAlias[j] == "" {
			continue
		}
		body = append(body, fmt.Sprintf("var u%d_%d = %s.Use%d()", fidx, j, depAlias[j], j))
	}
	ninit := r.Intn(3)
	if decoy {
		ninit = 1
	}
	for k := 0; k < ninit; k++ {
		m := mark("init", k)
		inits = append(inits, m)
		if useHost {
			body = append(body, fmt.Sprintf("func init() { host.Mark(%q) }", m))
		} else {
			body = append(body, "func init() { }")
		}
	}
	if first && !decoy {
		idx := 0
		for i, q := range w.Pkgs {
			if q == p {
				idx = i
			}
		}
		body = append(body, fmt.Sprintf("var ready%d = %d", idx, 100+idx))
		body = append(body, fmt.Sprintf("func Use%d() int { return ready%d }", idx, idx))
	}
	if p.Path == "main" && first {
		body = append(body, "func main() { }")
	}
	if !decoy && r.Chance(1, 3) {
		// an initialiser that calls a function declared further down (declarations are hoisted)
		body = append([]string{fmt.Sprintf("var hp%d = later%d() + 1", fidx, fidx)}, body...)
		body = append(body, fmt.Sprintf("func later%d() int { return 7 }", fidx))
	}
	if !decoy && r.Chance(1, 3) {
		// init functions written before the package-level code still run after it
		var ini, rest []string
		for _, l := range body {
			if strings.HasPrefix(l, "func init()") {
				ini = append(ini, l)
			} else {
				rest = append(rest, l)
			}
		}
		body = append(ini, rest...)
	}
	if !decoy && r.Chance(1, 8) {
		// a method that happens to be called init is a method, not a package initialiser
		body = append(body, fmt.Sprintf("type pool%d struct { n int }", fidx), fmt.Sprintf("func (p *pool%d) init() { p.n = p.n + 1 }", fidx))
	}
	// declaration order inside a file is free for functions; keep statements in order
	if r.Chance(1, 3) {
		var fn, rest []string
		for _, l := range body {
			if strings.HasPrefix(l, "func Use") || strings.HasPrefix(l, "func main") {
				fn = append(fn, l)
			} else {
				rest = append(rest, l)
			}
		}
		body = append(fn, rest...)
	}
	lines = append(lines, body...)
	if decoy && r.Chance(1, 2) {
		// excluded files are Go for other tools or platforms: goatlang need not be able to parse them
		lines = append(lines, core.Pick(r, []string{"func Gen[T any](x T) T { return x }", "var ch = make(chan int)", "func bg() { go bg() }", "type E int; func (e E) M() {}", "func named() (n int) { defer bg(); return }", "var arr [3]int", "import \"C\"", "}}} not go at all {{{", "var s = struct{ A int }{1}"}))
	}
	fv.Data = strings.Join(lines, "\n") + "\n"
	fv.Marks = append(append([]string{}, tops...), inits...)
	fv.TopN = len(tops)
	return fv
}

// Snapshot lays out version v of every file.
func (w *LWorld) Snapshot(v int) []core.DiskFile {
	var out []core.DiskFile
	for _, p := range w.Pkgs {
		for _, f := range p.Files {
			vv := v
			if vv >= len(f.Vers) {
				vv = len(f.Vers) - 1
			}
			out = append(out, core.DiskFile{Path: p.Dir + "/" + f.Name, Data: []byte(f.Vers[vv].Data)})
		}
	}
	out = append(out, w.Ghosts...)
	return out
}
