package engines

import (
	"fmt"
	"strings"

	"goatsim/core"
)

// GenWild produces syntactically plausible, semantically random programs over
// goatlang's whole grammar: it is not well-typed on purpose. C03 quantifies
// over all source texts; damaged corpus text mostly dies in the parser, while
// these programs reach the compiler's and the VM's less travelled paths
// (lambdas in loops, break/continue in odd places, compound assignment on
// index and field targets, literal indexes, cyclic containers being printed,
// typed declarations, conversions, every operator on every kind of operand).
type wildGen struct {
	r     *core.PRNG
	depth int
	names []string
	funcs []string
	n     int
	inFn  int
	loops int
}

var wildInts = []string{"0", "1", "2", "3", "5", "7", "-1", "10", "42", "100", "255", "256", "1000", "65535", "70000", "-129", "2147483647", "-2147483648", "4294967295", "0x7f", "0xff", "017"}
var wildSmall = []string{"0", "1", "2", "3", "4"}
var wildStrs = []string{`""`, `"a"`, `"hello"`, `"héllo"`, "`raw\\n`", `"%v %d"`, `"k"`, `"\x00\xff"`, `"1.5"`, `"12"`}
var wildTypes = []string{"int", "int", "string", "float64", "bool", "byte", "any", "[]int", "[]any", "[]string", "map[string]int", "map[string]any", "map[int]string", "*T", "func() int", "error", "int8", "uint32", "[]byte", "[][]int"}
var wildBin = []string{"+", "-", "*", "/", "%", "<<", ">>", "&", "|", "^", "<", ">", "<=", ">=", "==", "!=", "&&", "||"}
var wildAssign = []string{"=", "=", ":=", "+=", "-=", "*=", "/=", "%=", "|=", "^=", "&=", "<<=", ">>="}

func (g *wildGen) name() string {
	if len(g.names) > 0 && g.r.Chance(4, 5) {
		return core.Pick(g.r, g.names)
	}
	return core.Pick(g.r, []string{"a", "b", "xs", "m", "t", "s", "f", "n", "i", "x", "hook", "undefinedName"})
}

func (g *wildGen) newName() string {
	g.n++
	n := core.Pick(g.r, []string{"a", "b", "c", "xs", "ys", "m", "t", "s", "n", "x", "y", "hook", "i", "j"})
	if g.r.Chance(1, 3) {
		n = fmt.Sprintf("%s%d", n, g.n)
	}
	g.names = append(g.names, n)
	return n
}

func (g *wildGen) lit() string {
	switch g.r.Intn(10) {
	case 0, 1, 2, 3:
		return core.Pick(g.r, wildInts)
	case 4:
		return core.Pick(g.r, wildStrs)
	case 5:
		return core.Pick(g.r, []string{"1.5", "0.0", "2e10", "1e-5", "3.", ".5", "1e308"})
	case 6:
		return core.Pick(g.r, []string{"true", "false", "nil"})
	case 7:
		return core.Pick(g.r, []string{"'a'", "'\\n'", "'é'", "'\\x00'"})
	}
	return core.Pick(g.r, wildSmall)
}

func (g *wildGen) exprs(n int) string {
	var ps []string
	for i := 0; i < n; i++ {
		ps = append(ps, g.expr())
	}
	return strings.Join(ps, ", ")
}

func (g *wildGen) composite() string {
	switch g.r.Intn(8) {
	case 0:
		return "[]int{" + g.exprs(g.r.Intn(4)) + "}"
	case 1:
		return "[]any{" + g.exprs(g.r.Intn(4)) + "}"
	case 2:
		return "[]string{" + core.Pick(g.r, wildStrs) + "}"
	case 3:
		return "map[string]any{" + core.Pick(g.r, wildStrs) + ": " + g.expr() + "}"
	case 4:
		return "map[string]int{}"
	case 5:
		return "&T{A: " + g.expr() + "}"
	case 6:
		return "&T{}"
	}
	return "map[int]any{" + core.Pick(g.r, wildInts) + ": " + g.expr() + "}"
}

func (g *wildGen) expr() string {
	g.depth++
	defer func() { g.depth-- }()
	if g.depth > 4 {
		if g.r.Bool() {
			return g.name()
		}
		return g.lit()
	}
	switch g.r.Intn(24) {
	case 0, 1, 2:
		return g.name()
	case 3, 4, 5:
		return g.lit()
	case 6, 7, 8:
		return g.expr() + " " + core.Pick(g.r, wildBin) + " " + g.expr()
	case 9:
		return core.Pick(g.r, []string{"-", "!", "^"}) + g.expr()
	case 10:
		return "(" + g.expr() + ")"
	case 11:
		return g.name() + "[" + g.expr() + "]"
	case 12:
		return g.name() + "[" + core.Pick(g.r, wildInts) + "]"
	case 13:
		return g.name() + "[" + g.expr() + ":" + g.expr() + "]"
	case 14:
		return g.name() + "." + core.Pick(g.r, []string{"A", "B", "Next", "get", "missing"})
	case 15:
		if len(g.funcs) > 0 {
			return core.Pick(g.r, g.funcs) + "(" + g.exprs(g.r.Intn(3)) + ")"
		}
		return g.name() + "(" + g.exprs(g.r.Intn(3)) + ")"
	case 16:
		return g.name() + "." + core.Pick(g.r, []string{"get", "set", "Next"}) + "(" + g.exprs(g.r.Intn(2)) + ")"
	case 17:
		return core.Pick(g.r, []string{"len", "len", "append", "string", "int", "float64", "byte", "[]byte", "int8", "uint32", "fmt.Sprint", "fmt.Sprintf", "strings.Repeat", "strings.Split", "math.Sqrt", "strconv.Itoa", "__type"}) + "(" + g.exprs(1+g.r.Intn(2)) + ")"
	case 18:
		return g.composite()
	case 19:
		return g.lambda()
	case 20:
		return "make(" + core.Pick(g.r, []string{"[]int", "[]any", "map[string]int", "[]string"}) + ", " + core.Pick(g.r, wildSmall) + ")"
	case 21:
		return g.name() + "[" + g.name() + " " + core.Pick(g.r, []string{"+=", "-=", "++"}) + " 1]"
	}
	return g.name()
}

func (g *wildGen) lambda() string {
	ret := core.Pick(g.r, []string{"", "", " int", " any", " (int, int)", " bool"})
	params := core.Pick(g.r, []string{"", "", "a int", "a, b int", "a any", "a int, rest ...any"})
	g.inFn++
	body := g.block(1 + g.r.Intn(3))
	g.inFn--
	if g.loops > 0 && g.r.Chance(1, 3) {
		// loop control inside a function literal that sits inside a loop
		body = core.Pick(g.r, []string{"{ break }", "{ continue }", "{ if " + g.name() + " { break } }", "{ for { break }; continue }", "{ switch { default: break }; break }"})
	}
	return "func(" + params + ")" + ret + " " + body
}

// GenCycle returns a program that builds a self-referential value and renders it.
func GenCycle(r *core.PRNG) string {
	elem := core.Pick(r, []string{"any", "any", "[]any", "*N", "map[string]any"})
	var b []string
	b = append(b, "type N struct { V any; Next *N; Kids []*N; M map[string]*N }")
	v := "c"
	switch r.Intn(6) {
	case 0:
		b = append(b, fmt.Sprintf("c := []%s{nil, nil, nil}", elem), fmt.Sprintf("c[%d] = c", r.Intn(3)))
	case 1:
		b = append(b, "c := []any{1, \"two\", nil}", "d := []any{c}", "c[2] = d")
	case 2:
		b = append(b, fmt.Sprintf("c := map[string]%s{}", elem), "c[\"self\"] = c")
	case 3:
		b = append(b, "c := &N{V: 1}", "c.Next = c")
	case 4:
		b = append(b, "c := &N{}", "c.Kids = []*N{c, c}", "c.M = map[string]*N{\"me\": c}", "c.V = c.Kids")
	default:
		b = append(b, "c := []any{nil}", "m := map[string]any{\"c\": c}", "n := &N{V: m}", "c[0] = n")
		v = core.Pick(r, []string{"c", "m", "n"})
	}
	switch r.Intn(7) {
	case 0:
		b = append(b, "println("+v+")")
	case 1:
		b = append(b, "import \"fmt\"", "fmt.Println("+v+", "+v+")")
	case 2:
		b = append(b, "import \"fmt\"", "s := fmt.Sprint("+v+")", "s")
	case 3:
		b = append(b, "import \"fmt\"", "s := fmt.Sprintf(\"%v|%d|%s\", "+v+", "+v+", "+v+")", "len(s)")
	case 4:
		b = append(b, "panic("+v+")")
	case 5:
		b = append(b, v) // returned to the host, which renders it with String()
	default:
		b = append(b, "print("+v+", "+v+")")
	}
	return strings.Join(b, "; ")
}

func (g *wildGen) block(n int) string {
	g.depth++
	defer func() { g.depth-- }()
	var ss []string
	saved := len(g.names)
	for i := 0; i < n; i++ {
		ss = append(ss, g.stmt())
	}
	g.names = g.names[:saved]
	sep := "; "
	if g.r.Bool() {
		sep = "\n"
	}
	return "{ " + strings.Join(ss, sep) + " }"
}

func (g *wildGen) target() string {
	switch g.r.Intn(8) {
	case 0:
		return g.name() + "[" + g.expr() + "]"
	case 1:
		return g.name() + "[" + core.Pick(g.r, wildInts) + "]"
	case 2:
		return g.name() + "." + core.Pick(g.r, []string{"A", "B", "Next"})
	case 3:
		return g.name() + ", " + g.name()
	case 4:
		return "_"
	}
	return g.name()
}

func (g *wildGen) stmt() string {
	if g.depth > 5 {
		return g.name() + " = " + g.lit()
	}
	switch g.r.Intn(31) {
	case 0, 1:
		return g.newName() + " := " + g.expr()
	case 2:
		return "var " + g.newName() + " " + core.Pick(g.r, wildTypes)
	case 3:
		return "var " + g.newName() + " " + core.Pick(g.r, wildTypes) + " = " + g.expr()
	case 4, 5, 6:
		return g.target() + " " + core.Pick(g.r, wildAssign) + " " + g.expr()
	case 7:
		return g.target() + core.Pick(g.r, []string{"++", "--"})
	case 8, 9:
		s := "if " + g.expr() + " " + g.block(1+g.r.Intn(2))
		if g.r.Bool() {
			s += " else " + g.block(1)
		}
		return s
	case 10:
		g.loops++
		defer func() { g.loops-- }()
		i := g.newName()
		return fmt.Sprintf("for %s := 0; %s < %s; %s++ %s", i, i, core.Pick(g.r, wildSmall), i, g.block(1+g.r.Intn(3)))
	case 11:
		g.loops++
		defer func() { g.loops-- }()
		return "for " + g.block(1+g.r.Intn(3))
	case 12:
		g.loops++
		defer func() { g.loops-- }()
		return "for " + g.expr() + " " + g.block(1+g.r.Intn(2))
	case 13:
		g.loops++
		defer func() { g.loops-- }()
		return "for " + g.newName() + ", " + g.newName() + " := range " + g.expr() + " " + g.block(1+g.r.Intn(2))
	case 14:
		var cs []string
		for i := 0; i < 1+g.r.Intn(3); i++ {
			cs = append(cs, "case "+g.expr()+": "+g.stmt())
		}
		if g.r.Bool() {
			cs = append(cs, "default: "+g.stmt())
		}
		head := "switch "
		if g.r.Chance(2, 3) {
			head += g.expr() + " "
		}
		return head + "{ " + strings.Join(cs, "\n") + " }"
	case 15:
		return core.Pick(g.r, []string{"break", "break", "continue"})
	case 16, 17:
		return "return " + g.exprs(g.r.Intn(3))
	case 18:
		return g.expr() // expression statement (calls, mostly)
	case 19:
		return core.Pick(g.r, []string{"println", "print", "fmt.Println", "fmt.Print", "panic", "fmt.Sprint"}) + "(" + g.exprs(1+g.r.Intn(2)) + ")"
	case 20:
		// self reference: containers that contain themselves
		n := g.name()
		return n + "[" + core.Pick(g.r, wildSmall) + "] = " + n
	case 21:
		n := g.name()
		return n + "." + core.Pick(g.r, []string{"Next", "B"}) + " = " + n
	case 22:
		return "delete(" + g.name() + ", " + g.expr() + ")"
	case 23:
		n := g.name()
		return n + " = append(" + n + ", " + g.exprs(1+g.r.Intn(2)) + ")"
	case 24:
		return "copy(" + g.name() + ", " + g.expr() + ")"
	case 25:
		return g.newName() + " := " + g.lambda()
	case 26:
		return g.newName() + " := " + g.composite()
	case 27:
		return g.name() + "(" + g.exprs(g.r.Intn(3)) + ")"
	case 28:
		return "hook = " + g.lambda()
	case 29:
		return core.Pick(g.r, []string{"hook()", "x := hook()", "hook(1)"})
	}
	return g.newName() + ", " + g.newName() + " := " + g.expr() + ", " + g.expr()
}

// GenWild returns a random program; asPackage adds a package clause and main.
func GenWild(r *core.PRNG, asPackage bool) string {
	g := &wildGen{r: r}
	var top []string
	if asPackage {
		top = append(top, "package main")
	}
	for _, im := range []string{"fmt", "strings", "math", "strconv"} {
		if r.Chance(2, 3) {
			top = append(top, fmt.Sprintf("import %q", im))
		}
	}
	top = append(top, "type T struct { A int; B any; Next *T }")
	if r.Bool() {
		top = append(top, "func (t *T) get() int { return t.A }")
		top = append(top, "func (t *T) set(v any) { t.B = v }")
	}
	g.names = append(g.names, "xs", "m", "t", "s", "hook")
	top = append(top, "var xs = "+core.Pick(r, []string{"[]int{1, 2, 3}", "[]any{1, \"two\", nil}", "[]string{\"a\"}"}))
	top = append(top, "var m = "+core.Pick(r, []string{"map[string]any{}", "map[string]int{\"a\": 1}", "map[int]any{}"}))
	top = append(top, "var t = &T{A: 1}")
	top = append(top, "var s = \"hello\"")
	top = append(top, "var hook "+core.Pick(r, []string{"func() int", "func()", "any"}))
	nf := r.Intn(4)
	for i := 0; i < nf; i++ {
		name := fmt.Sprintf("f%d", i)
		params := core.Pick(r, []string{"", "a int", "a, b int", "a any, b ...any", "t *T", "xs []any"})
		ret := core.Pick(r, []string{"", " int", " any", " (int, any)", " string"})
		g.inFn++
		saved := len(g.names)
		g.names = append(g.names, "a", "b")
		body := g.block(1 + r.Intn(5))
		g.names = g.names[:saved]
		g.inFn--
		top = append(top, "func "+name+"("+params+")"+ret+" "+body)
		g.funcs = append(g.funcs, name)
	}
	ns := 1 + r.Intn(6)
	for i := 0; i < ns; i++ {
		top = append(top, g.stmt())
	}
	if asPackage {
		top = append(top, "func main() "+g.block(1+r.Intn(4)))
	}
	return strings.Join(top, "\n") + "\n"
}

// GenOdd returns small programs that are syntactically fine but semantically
// wrong in ways a live-coding session produces all the time: control flow
// outside its construct, result counts that do not match, calls of things that
// are not functions, nil receivers, shadowed builtins, unsupported keywords.
func GenOdd(r *core.PRNG) string {
	ret := core.Pick(r, []string{"", " int", " (int, int)", " any", " string"})
	ctl := core.Pick(r, []string{"break", "continue", "break", "if true { break }", "for { break }; break", "switch { case true: continue }", "return"})
	loop := core.Pick(r, []string{"for", "for i := 0; i < 2; i++", "for _, v := range []int{1, 2}", "for k := range map[string]int{\"a\": 1}"})
	n := core.Pick(r, wildInts)
	switch r.Intn(27) {
	case 25, 26:
		// structs with exactly 2^k fields (and their neighbours): methods, unknown attributes, printing
		n := core.Pick(r, []int{1, 2, 7, 8, 9, 15, 16, 17, 31, 32, 33, 63, 64, 65, 128})
		var fs, init []string
		for i := 0; i < n; i++ {
			fs = append(fs, fmt.Sprintf("F%d int", i))
			if r.Chance(1, 3) {
				init = append(init, fmt.Sprintf("F%d: %d", i, i))
			}
		}
		use := core.Pick(r, []string{"t.Sum()", "t.Nope", "t.Nope()", "t.F0 + t.Sum()", "fmt.Sprint(t)", "t.Nope = 1; t.F0", "u := *t; u.Sum()"})
		return "import \"fmt\"; type T struct { " + strings.Join(fs, "; ") + " }; func (t *T) Sum() int { return t.F0 + 1 }; t := &T{" + strings.Join(init, ", ") + "}; println(fmt.Sprint(t.F0)); " + use
	case 23, 24:
		// grouped declarations (a, b T) nested deeply: func-typed parameters and struct-typed
		// fields whose type again has grouped names, in every place a type or literal may stand
		d := 2 + r.Intn(45)
		fn := "func(" + strings.Repeat("a, b func(", d) + "int" + strings.Repeat(")", d) + ")"
		st := "struct { " + strings.Repeat("a, b struct { ", d) + "x int" + strings.Repeat(" }", d) + " }"
		if r.Chance(1, 3) {
			fn = "func(" + strings.Repeat("a, b, c func(x, y int, ", d) + "z int" + strings.Repeat(")", d) + ")"
		}
		switch r.Intn(12) {
		case 0:
			return "const ( A = " + fn + " {} )"
		case 1:
			return "const ( A = iota; B; C = " + fn + " {}; D )"
		case 2:
			return "const ( A = func() { type T " + st + " } )"
		case 3:
			return "func f(cb " + fn + ") {}; 7"
		case 4:
			return "type I interface { m" + fn[4:] + " }; 7"
		case 5:
			return "type T " + st + "; x := &T{}; println(x)"
		case 6:
			return "var ( x " + st + "; y = " + fn + " {} )"
		case 7:
			return "x := []" + st + "{}; y := map[string]" + fn + "{}; len(x) + len(y)"
		case 8:
			return "const ( A, B = 1, " + fn + " {}; C, D; E, F )"
		case 9:
			return "type T " + st + "; func (t *T) m" + fn[4:] + " {}; const ( K = iota; L = &T{} )"
		case 10:
			return "const ( A = []" + st + "{}; B; C )"
		}
		return "x := " + fn + " {}; const ( A = x; B = " + fn + " { const ( P = " + fn + " {} ) } )"
	case 21, 22:
		// containers mutated while they are ranged over: deletes ahead of the cursor (across the
		// key-list compaction), inserts, NaN keys, slices re-sliced and appended to
		kt := core.Pick(r, []string{"int", "float64", "string", "bool", "byte"})
		key := func(i int) string {
			switch kt {
			case "string":
				return fmt.Sprintf("%q", fmt.Sprintf("k%d", i))
			case "bool":
				return []string{"false", "true"}[i%2]
			case "float64":
				return fmt.Sprintf("%d.5", i)
			}
			return fmt.Sprint(i)
		}
		n := 2 + r.Intn(9)
		var lit, dels, ins []string
		for i := 0; i < n; i++ {
			lit = append(lit, key(i)+": "+fmt.Sprint(i))
			if r.Chance(3, 4) {
				dels = append(dels, "delete(m, "+key(i)+")")
			}
			if r.Chance(1, 3) {
				ins = append(ins, "m["+key(n+i)+"] = "+fmt.Sprint(i))
			}
		}
		if kt == "bool" {
			lit = lit[:2]
		}
		body := strings.Join(append(dels, ins...), "; ")
		switch r.Intn(6) {
		case 0:
			return fmt.Sprintf("m := map[%s]int{%s}; c := 0; for k, v := range m { c += v; %s; m[k] = c }; len(m)", kt, strings.Join(lit, ", "), body)
		case 1:
			return fmt.Sprintf("m := map[%s]int{%s}; for k := range m { for j := range m { delete(m, j); delete(m, k) }; %s }; len(m)", kt, strings.Join(lit, ", "), body)
		case 2:
			return "import \"math\"; m := map[float64]int{}; m[math.Sqrt(-1)] = 1; m[math.Sqrt(-1)] = 2; m[1.5] = 3; n := 0; for k, v := range m { n += v; delete(m, k) }; delete(m, math.Sqrt(-1)); println(len(m), n, m[math.Sqrt(-1)])"
		case 3:
			return fmt.Sprintf("import \"golang.org/x/exp/maps\"; m := map[%s]int{%s}; for _, k := range maps.Keys(m) { %s; delete(m, k) }; c := maps.Clone(m); len(c)", kt, strings.Join(lit, ", "), body)
		case 4:
			return fmt.Sprintf("xs := []int{1, 2, 3, 4}; for i, v := range xs { xs = append(xs, v); xs = xs[%d:]; if i > %d { break } }; len(xs)", r.Intn(3), r.Intn(5))
		}
		return fmt.Sprintf("m := map[%s]int{%s}; %s; for k, v := range m { %s; println(k, v) }; len(m)", kt, strings.Join(lit, ", "), strings.Join(dels, "; "), body)
	case 20:
		// long chains of calls in callee position
		n := 2 + r.Intn(70)
		if r.Bool() {
			return "type B struct { N int }; func (b *B) Add(d int) *B { b.N = b.N + d; return b }; b := &B{}; b" + strings.Repeat(".Add(1)", n) + ".N"
		}
		return "func f() any { return f }; f" + strings.Repeat("()", n)
	case 18:
		// compound assignment on an index target whose index contains a function literal doing the same
		d := 1 + r.Intn(6)
		// (the deep instance that never finishes is the canonical unit 0: a listed known finding)
		return "a := []int{0, 0}; " + NestedOpAssign(d)
	case 19:
		// struct type whose field names share one nested type; dumped with WithTreeDump
		d := 1 + r.Intn(8)
		// (the deep instance is the canonical unit 1: a listed known finding)
		return SharedStructType(d)
	case 16:
		return core.Pick(r, []string{"import ( x \"\\400\" )", "import ( x \"\\ud800\" )", "import \"\\400\"", "import ( \"fmt\" x )", "import ( x )", "import x", "import ( x \"fmt\" \"strings\" y )", "import ( . \"fmt\" )", "import ( _ \"fmt\" )", "import ()", "import \"\"", "import ( x \"\" ); x.y", "import ( fmt \"strings\" ); fmt.Repeat(\"a\", 2)", "import \"fmt\"; import \"fmt\"; fmt.Println(1)", "import ( a \"x/../y\" )", "import `raw`", "import ( x `ra\\400w` )", "import 'c'", "import 5"})
	case 17:
		// compound assignment nested inside index expressions
		d := 2 + r.Intn(10)
		if r.Chance(1, 40) {
			d = 24 + r.Intn(17) // rarely deep: compile work doubles per level
		}
		op := core.Pick(r, []string{" += 1", " -= 1", " |= 1", "++", "--"})
		inner := "y"
		for i := 0; i < d; i++ {
			inner = "x[" + inner + op + "]"
		}
		return "x := []int{0, 0, 0}; y := 0; " + inner + " += 1"
	case 0:
		return fmt.Sprintf("var hook func()%s; %s { hook = func()%s { %s }; break }; %s", ret, loop, ret, ctl, core.Pick(r, []string{"hook()", "x := hook(); x", "a, b := hook(); a; b", ""}))
	case 1:
		return fmt.Sprintf("func f()%s { }; %s", ret, core.Pick(r, []string{"f()", "x := f(); x", "a, b := f(); a", "a, b, c := f()"}))
	case 2:
		return fmt.Sprintf("func f()%s { return %s }; x := f(); x", ret, core.Pick(r, []string{"", "1", "1, 2", "1, 2, 3", "f()", "nil"}))
	case 3:
		return core.Pick(r, []string{"break", "continue", "return 1", "func f() { break }; f()", "func f() { continue }; f()", "switch 1 { case 1: continue }", "if true { break }", "func f() int { for { return 1; break } }; f()"})
	case 4:
		return core.Pick(r, []string{"var f func(); f()", "5()", "\"s\"(1)", "x := 1; x.y", "x := 1; x[0]", "x := 1; x.y()", "nil()", "nil.x", "true[0]", "x := []int{}; x.y", "x := map[string]int{}; x()", "len()", "len(1, 2)", "append()", "delete(1)", "copy(1)", "panic()", "make()", "make(int)", "make([]int)"})
	case 5:
		return fmt.Sprintf("func r(n int) int { return r(n + 1) %s 1 }; r(0)", core.Pick(r, []string{"+", "*", "-"}))
	case 6:
		return "func f(a int) int { return a }; f(" + strings.TrimSuffix(strings.Repeat(n+", ", 1+r.Intn(300)), ", ") + ")"
	case 7:
		return core.Pick(r, []string{"func f(a int) {}; xs := []int{1}; f(xs...)", "xs := []int{}; xs = append(xs...)", "func f(a ...int) int { return len(a) }; f(1, []int{2}...)", "func f(a ...int) {}; f(nil...)", "func f(a int, b ...any) {}; f()", "println([]any{}...)"})
	case 8:
		return core.Pick(r, []string{"type T T; var t T; t", "type A []A; a := A{}; a = append(a, a); println(a)", "type T struct { T *T }; t := &T{}; t.T = t; println(t)", "type T struct{}; type T int; var x T = 1; x", "type I interface { m() }; var i I; i.m()", "type T struct { A int }; t := &T{B: 1}; t", "type T struct { A int }; t := T{1}; t"})
	case 9:
		return core.Pick(r, []string{"type T struct { A int }; func (t *T) m() int { return t.A }; var t *T; t.m()", "type T struct{}; t := &T{}; t.missing()", "type T struct{}; func (t *T) m() {}; x := t.m; x()", "type T struct{}; func (x *Undefined) m() {}", "func (t *T) m() {}; type T struct{}; t := &T{}; t.m()"})
	case 10:
		return core.Pick(r, []string{"a, b := 1", "a := 1, 2; a", "func f() int { return 1 }; a, b := f(); b", "a, b, c := 1, 2", "var a, b int = 1; b", "a, _ := 1, 2, 3", "_ := 1", "_ = 1", "_", "a, a := 1, 2; a", "var (a = 1; b); b", "const (a = iota; b; c); c", "const a; a", "const (a, b = iota, iota * 2; c, d); d"})
	case 11:
		return core.Pick(r, []string{"go f()", "defer f()", "ch := make(chan int); ch <- 1", "select {}", "goto L", "L: for { break L }", "x := <-ch", "func f() (n int) { n = 1; return }; f()", "var a [3]int; a[0]", "x := struct{A int}{1}; x", "type E int; func (e E) m() {}", "for i := range 3 { i }", "x := 1; p := &x; *p", "switch x := 1; x.(type) { }", "import \"os\"; os.Exit(1)"})
	case 12:
		return core.Pick(r, []string{"len := 3; xs := []int{1}; len(xs)", "nil := 1; nil", "true = false; true", "int := 5; int(2.5)", "string := 1; string(65)", "append := 1; append", "fmt := 1; import \"fmt\"; fmt.Println(1)", "import \"fmt\"; fmt := 2; fmt", "println := 1; println(2)", "func len() {}; len()", "type int string; var x int = 1; x", "func main() {}; main := 1; main()"})
	case 13:
		return core.Pick(r, []string{";;", "$", "$0", "$ 1", "$" + n, "$.x", "$ = 1", "$[0]", "x := $; x", "~", "#", "?", "@", "\\", "a ? b : c", "a -> b", "...", "x...", "(...)"})
	case 14:
		return fmt.Sprintf("xs := []int{1, 2, 3}; %s", core.Pick(r, []string{"xs[" + n + "]", "xs[" + n + ":]", "xs[:" + n + "]", "xs[" + n + ":" + n + "]", "xs[1:0]", "xs[-1:]", "s := \"abc\"; s[" + n + "]", "s := \"abc\"; s[" + n + ":]", "m := map[int]int{}; m[" + n + "]++; m", "xs[0] /= 0", "xs[0] %= 0", "x := 1 << " + n + "; x", "x := 1 >> " + n + "; x", "x := 1.5 % 2; x", "x := \"a\" * 2; x", "x := \"a\" - \"b\"; x", "x := !5; x", "x := -\"s\"; x", "x := ^1.5; x"}))
	}
	return fmt.Sprintf("import \"strings\"; import \"fmt\"; import \"strconv\"; import \"math\"; %s", core.Pick(r, []string{
		"strings.Repeat(\"ab\", -1)", "strings.Repeat(\"ab\", " + n + ")", "strings.Split(1, 2)", "strings.Join(1, 2)", "strings.Join([]int{1}, \",\")", "fmt.Sprintf(\"%d %s %v %!\", 1)", "fmt.Sprintf(5)", "fmt.Sprintf()", "strconv.Itoa(\"x\")", "strconv.ParseInt(\"1\", 99, 64)", "strconv.ParseFloat(\"x\")", "strconv.FormatFloat(1.5, 'q', 1, 64)", "strconv.FormatInt(5, 1)", "math.Sqrt(\"x\")", "math.Sqrt()", "strings.Replace(\"a\", \"\", \"b\", " + n + ")",
		"import \"golang.org/x/exp/slices\"; slices.SortFunc(1, 2)", "import \"golang.org/x/exp/slices\"; slices.SortFunc([]int{2, 1}, func(a, b int) int { return 1 })", "import \"golang.org/x/exp/slices\"; slices.Delete([]int{1}, 3, 1)", "import \"golang.org/x/exp/slices\"; slices.Sort([]any{1, \"a\", nil})", "import \"golang.org/x/exp/maps\"; maps.Keys(1)", "import \"golang.org/x/exp/maps\"; maps.Clone(nil)", "import \"errors\"; e := errors.New(1); e.Error()", "import \"errors\"; e := errors.New(\"x\"); e.Missing()", "import \"time\"; time.Sleep(\"x\")", "import \"time\"; t := time.Now(); t.Missing()", "import \"os\"; os.ReadFile(1)", "import \"os\"; os.WriteFile(\"x\", 1, 2)", "import \"math/rand\"; rand.Intn(0)", "import \"math/rand\"; rand.Intn(-5)", "__type()", "__yield()", "import \"builtin\"; builtin.__yield(1)",
	}))
}

// NestedOpAssign: a[func() int { a[func() int { ... }()] += 1; return 0 }()] += 1, d levels.
func NestedOpAssign(d int) string {
	inner := "0"
	for i := 0; i < d; i++ {
		inner = "func() int { a[" + inner + "] += 1; return 0 }()"
	}
	return "a[" + inner + "] += 1"
}

// SharedStructType: type T struct { a, b struct { a, b struct { ... int } } }, d levels.
func SharedStructType(d int) string {
	inner := "int"
	for i := 0; i < d; i++ {
		inner = "struct { a, b " + inner + " }"
	}
	return "type T " + inner
}
