package engines

import (
	"fmt"
	"sort"
	"strings"

	"github.com/philhassey/goatlang"

	"goatsim/core"
)

// repl decides C18: feeding a program to one VM a chunk at a time equals
// evaluating it whole. The simulator contributes where the program is cut and
// where each message lands: at the top level, or at a yield inside a
// suspended, unrelated script that keeps running between messages (the
// live-mode path of cli.live).

type RPlan struct {
	Seed        uint64   `json:"seed"`
	Stmts       []string `json:"stmts"`    // one top-level statement each; the last is an expression
	Cuts        []int    `json:"cuts"`     // a message ends after statement index c (ascending)
	AtYield     []bool   `json:"at_yield"` // per message: delivered at a yield of the suspended script
	Names       []string `json:"names"`    // globals to compare
	OptimizeOff bool     `json:"optimize_off,omitempty"`
	Enumerated  bool     `json:"enumerated,omitempty"` // this plan belongs to a complete enumeration of cuts
}

type repl struct{}

func init() { core.Register(repl{}) }

func (repl) Property() string { return "C18" }
func (repl) Name() string     { return "repl" }
func (repl) NewPlan() any     { return &RPlan{} }
func (repl) Units(tier string) int {
	if tier == "thorough" {
		return 2500000
	}
	return 22000
}

func (repl) Describe() core.EngineInfo {
	return core.EngineInfo{
		Level: "exploration",
		Rule: "a unit is one generated sequence of 3-14 (one unit in twelve: 22-62, one in ninety: 220-420, dense in block scopes) well-typed, define-before-use top-level statements (imports, var/const/:=, assignments, if/for/range/switch, type, function and method definitions, calls reporting through a native and through print, captured function values, calls through block-scoped function variables, bare call statements, redefinitions with another arity, re-bound import aliases, string and float constants declared twice, a function naming a package before its import, one statement in ten programs failing at run time) ending in an expression; it is cut into consecutive messages at every set of boundaries (all 2^(n-1) when n <= 7, seeded samples beyond) and each message is delivered by a top-level Eval or at a yield inside a suspended unrelated script, with one shared WithEvalImports map as cli.options does. " +
			"A case is one cut+delivery schedule, compared with one Eval of the joined text on a fresh VM: stdout, native observation history, last returned values, every declared global. non-trivial = at least two messages; distinct = (statement kinds, cut vector, delivery vector)",
		Real:       []string{"goatlang Eval (tokenize, parse, loadImports, compile against persistent globals with fresh locals, run), WithEvalImports, Yield"},
		Stubs:      []string{"readline / REPL loop of cli -> message schedule", "time.Sleep -> Yield + simulated clock"},
		Assumes:    []string{"generated programs do not fail at run time (error positions legitimately differ between the strategies)", "no fault kind applies to this property: the simulator contributes the cut and the delivery site only"},
		ProbesWant: []string{"messages_at_yield", "messages_top", "all_cuts_enumerated", "both_failed_at_run_time", "single_statement_messages", "ref_ok"},
	}
}

// stmtNames extracts the global names a generated statement declares.
func stmtNames(stmts []string) []string {
	seen := map[string]bool{}
	var out []string
	add := func(n string) {
		if n != "" && n != "_" && !seen[n] {
			seen[n] = true
			out = append(out, n)
		}
	}
	for _, s := range stmts {
		f := strings.Fields(s)
		if len(f) < 2 {
			continue
		}
		switch {
		case f[0] == "var" || f[0] == "const":
			add(f[1])
		case f[1] == ":=":
			add(f[0])
		}
	}
	return out
}

func (e repl) RunUnit(seed uint64, tier string, unit int, exec func(plan any) *core.Result) {
	r := core.NewPRNG(core.Mix(seed, 0xC18, uint64(unit)))
	n := 3 + r.Intn(12)
	if r.Chance(1, 12) {
		n = 21 + r.Intn(40) // long programs, dense in block scopes: local slot numbers reach the dozens
	}
	veryLong := r.Chance(1, 90)
	if veryLong {
		n = 220 + r.Intn(200) // ... and the hundreds
	}
	stmts := GenStatements(r.Fork(), n, true)
	if len(stmts) > 4 && r.Chance(1, 10) {
		// one statement that fails at run time, somewhere after the first few
		at := 2 + r.Intn(len(stmts)-3)
		bad := core.Pick(r, []string{"panic(\"boom\")", "println(len([]int{1, 2}[5:]))", "println(7 / len(\"\"))", "var nmF map[string]int; nmF[\"a\"] = 1", "var npF *struct{ A int }; println(npF.A)", "println([]int{1}[3])"})
		stmts = append(stmts[:at:at], append([]string{bad}, stmts[at:]...)...)
	}
	names := stmtNames(stmts)
	total := len(stmts)
	optOff := r.Chance(1, 4)
	mk := func(cutAt func(i int) bool, yieldMask uint64) *RPlan {
		p := &RPlan{Seed: core.Mix(seed, uint64(unit)), Stmts: stmts, Names: names, OptimizeOff: optOff}
		for i := 0; i < total-1; i++ {
			if cutAt(i) {
				p.Cuts = append(p.Cuts, i)
			}
		}
		p.Cuts = append(p.Cuts, total-1)
		for i := range p.Cuts {
			p.AtYield = append(p.AtYield, yieldMask>>uint(i%64)&1 == 1)
		}
		return p
	}
	bits := func(mask uint64) func(int) bool { return func(i int) bool { return i < 64 && mask>>uint(i)&1 == 1 } }
	if total-1 <= 6 {
		for mask := uint64(0); mask < 1<<uint(total-1); mask++ {
			q := mk(bits(mask), r.Uint64())
			q.Enumerated = true
			exec(q)
		}
		return
	}
	k := 12
	if tier == "thorough" {
		k = 40
	}
	if veryLong {
		k = 4
	}
	all := func(int) bool { return true }
	exec(mk(all, r.Uint64())) // one statement per message
	exec(mk(all, 0))
	for i := 0; i < k; i++ {
		if total <= 64 {
			exec(mk(bits(r.Uint64()), r.Uint64()))
			continue
		}
		// long programs: every boundary is a cut with a density drawn per schedule
		den := core.Pick(r, []int{2, 2, 8, 32, 100})
		f := r.Fork()
		exec(mk(func(int) bool { return f.Intn(den) == 0 }, r.Uint64()))
	}
}

type rObs struct{ log []string }

func deepString(v goatlang.Value, depth int) (s string) {
	defer func() {
		if r := recover(); r != nil {
			s = "<unprintable>"
		}
	}()
	if depth > 3 {
		return "..."
	}
	switch v.Type() {
	case goatlang.TypeMap:
		var ps []string
		next := v.Range()
		for {
			k, e, ok := next()
			if !ok {
				break
			}
			ps = append(ps, deepString(k, depth+1)+"="+deepString(e, depth+1))
		}
		sort.Strings(ps)
		return "map{" + strings.Join(ps, ",") + "}"
	case goatlang.TypeStruct:
		if v.IsNil() {
			return "struct(nil)"
		}
		return "struct{A=" + deepString(v.GetAttr("A"), depth+1) + ",B=" + deepString(v.GetAttr("B"), depth+1) + "}"
	case goatlang.TypeSlice:
		var ps []string
		next := v.Range()
		for {
			_, e, ok := next()
			if !ok {
				break
			}
			ps = append(ps, deepString(e, depth+1))
		}
		return "[" + strings.Join(ps, " ") + "]"
	}
	return core.ValueString(v)
}

type rSide struct {
	h    *core.Host
	obs  []string
	rets []goatlang.Value
	err  error
}

func newSide(seed uint64, hist *core.History) *rSide {
	s := &rSide{}
	disk := core.NewSimDisk([]core.DiskFile{{Path: "lib/lib.go", Data: []byte("package lib\nvar Loaded = 1\nfunc Twice(a int) int { return a * 2 }\n")}, {Path: "bg/bg.go", Data: []byte("package bg\nimport \"time\"\nfunc Loop(n int) {\n\tfor i := 0; i < n; i++ {\n\t\ttime.Sleep(1000)\n\t}\n}\n")}}, hist)
	disk.Mute = true
	s.h = core.NewHost(seed, disk, hist, func(vm *goatlang.VM) {
		vm.Set("host.Obs", goatlang.NewFunc(2, 0, func(v *goatlang.VM, a []goatlang.Value, va ...goatlang.Value) []goatlang.Value {
			parts := []string{a[0].String()}
			for _, x := range va {
				parts = append(parts, deepString(x, 0))
			}
			s.obs = append(s.obs, strings.Join(parts, " "))
			return nil
		}))
	})
	s.h.Budget = core.MaxBudget
	return s
}

func (s *rSide) globals(names []string) []string {
	var out []string
	for _, n := range names {
		out = append(out, n+"="+deepString(s.h.VM.Get("main."+n), 0))
	}
	return out
}

func (repl) Execute(plan any, keep bool) *core.Result {
	p := plan.(*RPlan)
	res := &core.Result{Counters: core.Counters{}}
	hist := core.NewHistory(keep)
	goatlang.VerifOptimizeOff = p.OptimizeOff
	defer func() { goatlang.VerifOptimizeOff = false; goatlang.VerifSetBudget(-1) }()
	finish := func() *core.Result {
		res.Hash = hist.Hash()
		res.History = hist
		return res
	}
	if len(p.Stmts) == 0 || len(p.Cuts) == 0 || len(p.AtYield) != len(p.Cuts) || p.Cuts[len(p.Cuts)-1] != len(p.Stmts)-1 {
		return finish()
	}
	// Statements are separated by ";" in both strategies: goatlang has no automatic
	// semicolon insertion ("}" followed by "(" on the next line is a call), which is a
	// matter of the accepted subset (C01), not of incremental evaluation.
	// reference: the whole program in one Eval on a fresh VM
	ref := newSide(p.Seed, core.NewHistory(false))
	refImports := map[string]string{}
	ref.rets, ref.err = ref.h.Eval("stdin", strings.Join(p.Stmts, ";\n"), goatlang.WithEvalImports(refImports))
	refFailed := ref.err != nil || len(ref.h.Escapes) > 0
	if refFailed {
		res.Counters.Inc("ref_failed")
		hist.Add("ref", "failed", fmt.Sprint(ref.err))
	} else {
		res.Counters.Inc("ref_ok")
	}
	if p.Enumerated {
		res.Counters.Inc("all_cuts_enumerated")
	}
	// incremental: one VM, one shared import map, messages at the top level or at yields
	inc := newSide(p.Seed, hist)
	imports := map[string]string{}
	var msgs []string
	prev := 0
	for _, c := range p.Cuts {
		if c < prev-1 || c >= len(p.Stmts) {
			return finish()
		}
		msgs = append(msgs, strings.Join(p.Stmts[prev:c+1], ";\n"))
		prev = c + 1
	}
	var failed error
	deliver := func(i int) {
		if failed != nil {
			return // a whole program stops at its first failing statement; so does the session
		}
		rets, err := inc.h.Eval("stdin", msgs[i], goatlang.WithEvalImports(imports))
		if err != nil && failed == nil {
			failed = fmt.Errorf("message %d %q: %v", i+1, msgs[i], err)
		}
		inc.rets = rets
		if len(strings.Split(msgs[i], "\n")) == 1 {
			res.Counters.Inc("single_statement_messages")
		}
	}
	if err := inc.h.Load("bg"); err != nil {
		res.Fail("HARNESS", "generator", "bg", "background package does not load: %v", err)
		return finish()
	}
	for i := 0; i < len(msgs); {
		if !p.AtYield[i] {
			res.Counters.Inc("messages_top")
			deliver(i)
			i++
			continue
		}
		// a run of messages delivered one per yield inside the suspended script
		j := i
		for j < len(msgs) && p.AtYield[j] {
			j++
		}
		next := i
		inc.h.OnYield = func(h *core.Host) {
			if next < j {
				res.Counters.Inc("messages_at_yield")
				k := next
				next++
				deliver(k)
			}
		}
		_, err := inc.h.Call("bg.Loop", 0, goatlang.Int(j-i+1))
		inc.h.OnYield = nil
		if err != nil && failed == nil {
			failed = fmt.Errorf("suspended script failed: %v", err)
		}
		i = j
	}
	res.Nontrivial = len(msgs) > 1
	var cutv, yv strings.Builder
	for i, c := range p.Cuts {
		fmt.Fprintf(&cutv, "%d,", c)
		if p.AtYield[i] {
			yv.WriteByte('y')
		} else {
			yv.WriteByte('t')
		}
	}
	res.Abstract = fmt.Sprintf("%x|%s|%s", core.HashString(strings.Join(p.Stmts, "\n")), cutv.String(), yv.String())
	res.Steps = len(msgs)
	for i, esc := range inc.h.Escapes {
		res.Fail("C18", "C18/out", "panic", "incremental evaluation panicked (%s) [raised at %s]", esc, inc.h.EscapeSites[i])
	}
	if !res.OK() {
		return finish()
	}
	if refFailed {
		// both strategies failing is no case (a minimiser may cut a definition away);
		// one succeeding where the other fails is a difference
		res.Abstract = "ref-failed"
		if failed == nil && !core.IsBudget(ref.err) {
			res.Fail("C18", "C18/out", "whole-program-failed", "fed in %d messages the program evaluates, but as one Eval call it fails: %v", len(msgs), firstLine(fmt.Sprint(ref.err)))
		}
		if failed != nil && len(ref.h.Escapes) == 0 && strings.HasPrefix(fmt.Sprint(ref.err), "error in run: ") && strings.Contains(failed.Error(), ": error in run: ") {
			// both strategies stopped at a statement that fails at run time: what ran before it ran in both
			res.Counters.Inc("both_failed_at_run_time")
			res.Abstract += "-run"
			if a, b := inc.h.Stdout.String(), ref.h.Stdout.String(); a != b {
				res.Fail("C18", "C18/out", "stdout-before-failure", "both strategies stop at a run-time failure, but what was printed before it differs: incremental %q, whole %q", a, b)
			}
			if a, b := strings.Join(inc.obs, "|"), strings.Join(ref.obs, "|"); a != b {
				res.Fail("C18", "C18/out", "observations-before-failure", "both strategies stop at a run-time failure, but the native observations before it differ: incremental %q, whole %q", a, b)
			}
			ga, gb := inc.globals(p.Names), ref.globals(p.Names)
			for i := range ga {
				if ga[i] != gb[i] {
					res.Fail("C18", "C18/globals", "value-before-failure", "both strategies stop at a run-time failure, but a global differs: incremental %s, whole %s", ga[i], gb[i])
					break
				}
			}
		}
		return finish()
	}
	if failed != nil {
		if !core.IsBudget(failed) {
			res.Fail("C18", "C18/out", "incremental-failed", "the whole program evaluates in one call, but fed in %d messages it fails: %v", len(msgs), firstLine(failed.Error()))
		}
		return finish()
	}
	if a, b := inc.h.Stdout.String(), ref.h.Stdout.String(); a != b {
		res.Fail("C18", "C18/out", "stdout", "stdout differs: incremental %q, whole %q", a, b)
	}
	if a, b := strings.Join(inc.obs, "|"), strings.Join(ref.obs, "|"); a != b {
		res.Fail("C18", "C18/out", "observations", "native observations differ: incremental %q, whole %q", a, b)
	}
	if a, b := core.ValuesString(inc.rets), core.ValuesString(ref.rets); a != b {
		res.Fail("C18", "C18/last", "value", "value of the last expression differs: incremental %s, whole %s", a, b)
	}
	ga, gb := inc.globals(p.Names), ref.globals(p.Names)
	for i := range ga {
		if ga[i] != gb[i] {
			res.Fail("C18", "C18/globals", "value", "global differs: incremental %s, whole %s", ga[i], gb[i])
			break
		}
	}
	return finish()
}

func (repl) Shrink(plan any) []func() any {
	p := plan.(*RPlan)
	var out []func() any
	mod := func(f func(q *RPlan)) {
		out = append(out, func() any {
			q := core.CloneJSON(p)
			f(q)
			return q
		})
	}
	// drop one statement (not the last) and re-map the cuts
	for i := 0; i < len(p.Stmts)-1; i++ {
		i := i
		mod(func(q *RPlan) {
			q.Stmts = append(append([]string{}, q.Stmts[:i]...), q.Stmts[i+1:]...)
			var cuts []int
			var ys []bool
			for k, c := range q.Cuts {
				if c >= i {
					c--
				}
				if c < 0 || (len(cuts) > 0 && cuts[len(cuts)-1] >= c) {
					continue
				}
				cuts = append(cuts, c)
				ys = append(ys, q.AtYield[k])
			}
			if len(cuts) == 0 || cuts[len(cuts)-1] != len(q.Stmts)-1 {
				cuts = append(cuts, len(q.Stmts)-1)
				ys = append(ys, false)
			}
			q.Cuts, q.AtYield = cuts, ys
			q.Names = stmtNames(q.Stmts)
		})
	}
	// merge two adjacent messages
	for k := 0; k+1 < len(p.Cuts); k++ {
		k := k
		mod(func(q *RPlan) {
			q.Cuts = append(append([]int{}, q.Cuts[:k]...), q.Cuts[k+1:]...)
			q.AtYield = append(append([]bool{}, q.AtYield[:k]...), q.AtYield[k+1:]...)
		})
	}
	for k := range p.AtYield {
		k := k
		if p.AtYield[k] {
			mod(func(q *RPlan) { q.AtYield[k] = false })
		}
	}
	if p.OptimizeOff {
		mod(func(q *RPlan) { q.OptimizeOff = false })
	}
	return out
}
