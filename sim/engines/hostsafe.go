package engines

import (
	"fmt"
	"path"
	"regexp"
	"strings"

	"github.com/philhassey/goatlang"

	"goatsim/core"
)

// hostsafe decides C03: no input, file system, option set, native failure or
// call history can take the embedding host down.

type HSParam struct {
	Kind string  `json:"kind"` // int, float, string, bool, nil, slice, byte
	I    int64   `json:"i,omitempty"`
	F    float64 `json:"f,omitempty"`
	S    string  `json:"s,omitempty"`
}

type HSCall struct {
	Kind    string     `json:"kind"` // eval | load | call | func
	Src     core.Bytes `json:"src,omitempty"`
	Damage  string     `json:"damage,omitempty"`
	Name    string     `json:"name"` // file name (eval), load argument, or function name
	Tree    bool       `json:"tree_dump,omitempty"`
	Code    bool       `json:"code_dump,omitempty"`
	Imports bool       `json:"eval_imports,omitempty"`
	XRets   int        `json:"x_rets,omitempty"`
	Params  []HSParam  `json:"params,omitempty"`
	// Via says how the call reaches the VM: "" directly from the host;
	// otherwise from inside a running script: native (a host native called by a
	// script statement), func (inside a script function body), sort (inside a
	// slices.SortFunc comparator), yield (drained at a time.Sleep yield),
	// init (inside init() of a package being loaded).
	Via     string `json:"via,omitempty"`
	Depth   int    `json:"depth,omitempty"`   // extra native->script->native levels
	Swallow bool   `json:"swallow,omitempty"` // the delivering native handles the inner error instead of propagating it
}

type HSWriterFault struct {
	Writer string `json:"writer"` // stdout | tree | code
	At     int    `json:"at"`
	Mode   string `json:"mode"` // error | short
}

type HSNativeFault struct {
	At   int    `json:"at"`   // k-th invocation of host.Fail (1-based)
	Kind string `json:"kind"` // string | error | runtime | custom
}

type HSPlan struct {
	Seed         uint64           `json:"seed"`
	OptimizeOff  bool             `json:"optimize_off,omitempty"`
	Rich         bool             `json:"rich_fs,omitempty"`
	Chunk        int              `json:"read_chunk,omitempty"`
	Budget       int64            `json:"budget"`
	Files        []core.DiskFile  `json:"files,omitempty"`
	DiskFaults   []core.DiskFault `json:"disk_faults,omitempty"`
	DiskEdits    []core.DiskEdit  `json:"disk_edits,omitempty"`
	WriterFaults []HSWriterFault  `json:"writer_faults,omitempty"`
	NativeFaults []HSNativeFault  `json:"native_faults,omitempty"`
	Calls        []HSCall         `json:"calls"`
}

type hostsafe struct{}

func init() { core.Register(hostsafe{}) }

func (hostsafe) Property() string { return "C03" }
func (hostsafe) Name() string     { return "hostsafe" }
func (hostsafe) NewPlan() any     { return &HSPlan{} }

func (hostsafe) Units(tier string) int {
	if tier == "thorough" {
		return 6000000
	}
	return 300000
}

func (hostsafe) Describe() core.EngineInfo {
	return core.EngineInfo{
		Level: "fault_enumeration",
		Rule: "a case is one session of 1-8 entry-point calls (Eval/Load/Call/Func, direct or nested inside a native, a script function, a sort comparator, a yield or init) on one VM, " +
			"with sources from the repository's test tables, examples and generated programs passed through a damage stage (torn save, splice, flipped byte, token edits, invalid UTF-8, deep nesting), " +
			"and faults at the disk, writer and native seams; in sweep units one clean session is followed by the same session once per disk operation / writer write / native invocation with a single fault there. " +
			"non-trivial = at least one fault (including source damage) fired or one call was delivered at depth >= 1; distinct = sequence of (entry kind, delivery, outcome stage, normalised error head) plus the set of fault kinds fired",
		Real:  []string{"goatlang tokenizer, parser, loader, compiler+optimizer, VM, values, bundled natives (fmt, strings, math, strconv, slices, maps, errors) via New/Load/Eval/Call/Func/Yield/Set"},
		Stubs: []string{"fs.FS -> SimDisk", "io.Writer -> SimWriter", "time.Sleep/time.Now -> simulated clock", "math/rand -> seeded PRNG", "os.ReadFile/os.WriteFile/os.Args -> SimDisk/fixed", "builtin.__yield -> session drain", "cli/ (readline, watcher, goroutines) not executed"},
		Assumes: []string{"sources <= 16 KiB; nesting <= 2000", "instruction budget hook turns non-terminating scripts into ordinary run errors (the property's resource-exhaustion exception)",
			"out-of-memory deaths caused by a script's own allocation requests are the excepted resource exhaustion", "natives that violate their own declared result count are host bugs and are not injected",
			"Load's 'unexpected returns:' error (no stage failed) is accepted without a stage prefix"},
		ProbesWant: []string{"outcome:eval/ok", "outcome:eval/tokenize", "outcome:eval/parse", "outcome:eval/loadImports", "outcome:eval/compile", "outcome:eval/compile (imports)", "outcome:eval/run", "outcome:eval/run (imports)",
			"outcome:load/ok", "outcome:load/load", "outcome:load/compile", "outcome:load/run", "fault:eio-open", "fault:eio-read", "fault:eio-readdir", "fault:vanish", "fault:write-error", "fault:write-short", "fault:native-panic", "budget_exhausted", "entry_depth_1", "entry_depth_2"},
	}
}

// --- generation --------------------------------------------------------------

var hsBudgets = []int64{30, 300, 3000, 200000, 200000, 200000}

// bigSource: a source beyond 65535 lines (or with a line beyond 65535 columns) whose code, and
// whose run-time fault, sit past that mark. Not capped to 16 KiB like the other sources.
func bigSource(r *core.PRNG) []byte {
	n := core.Pick(r, []int{65530, 65534, 65535, 65536, 65537, 65540, 70000, 131071, 131072, 131075})
	fill := strings.Repeat("\n", n)
	switch r.Intn(4) {
	case 0:
		fill = strings.Repeat("//\n", n)
	case 1:
		fill = strings.Repeat(" ", n) // one long line: columns instead of lines
	}
	fault := core.Pick(r, []string{"return 1 / a", "var m map[string]int; m[\"k\"] = a; return a", "xs := []int{1}; return xs[a + 5]", "var f func() int; return f()", "panic(\"late\")", "return a"})
	switch r.Intn(5) {
	case 0:
		return []byte(fill + "x()")
	case 1:
		return []byte("func f() int { a := 0; " + fill + fault + " }; f()")
	case 2:
		return []byte(fill + "func f() int { a := 0; " + fault + " }; f()")
	case 3:
		return []byte("type T struct { A int }; func (t *T) m() int { a := t.A; " + fill + fault + " }; t := &T{}; println(t.m())")
	}
	return []byte("g := func() int { a := 0; " + fill + fault + " }; " + fill + "g()")
}

func (e hostsafe) genSource(r *core.PRNG) ([]byte, string) {
	c := Corpus()
	if r.Chance(1, 250) {
		return bigSource(r.Fork()), "none"
	}
	var src []byte
	switch n := r.Intn(27); {
	case n >= 25:
		if r.Bool() {
			src = []byte(GenCycle(r.Fork()))
		} else {
			src = []byte(GenOdd(r.Fork()))
		}
	case n >= 20:
		src = []byte(GenWild(r.Fork(), r.Chance(1, 4)))
	case n < 12:
		src = core.Pick(r, c.Snippets)
	case n < 13 && len(c.Examples) > 0:
		src = core.Pick(r, c.Examples)
	case n < 15 && len(c.Trees) > 0:
		t := core.Pick(r, c.Trees)
		src = core.Pick(r, t).Data
	case n < 16:
		// valid, feature-rich programs of the other engines' generators
		switch r.Intn(4) {
		case 0:
			w := GenLiveWorld(r.Fork())
			src = []byte(w.Infra(0))
			if r.Bool() {
				f := core.Pick(r, w.EntFiles())
				src = []byte(w.EntFile(f[0], f[1], r.Intn(w.Versions)))
			}
		case 1:
			src = []byte(cpRender(crashpoint{}.genPlan(r.Fork())).Text)
		case 2:
			src = []byte(boundary{}.genPlan(r.Fork()).render())
		default:
			src = []byte(mapiter{}.genPlan(r.Fork()).render())
		}
	default:
		src = []byte(GenProgram(r.Fork(), r.Intn(3)))
	}
	kind := "none"
	if r.Chance(4, 5) {
		kind = core.Pick(r, damageKinds)
	}
	other := core.Pick(r, c.Snippets)
	out := damage(r, kind, src, other)
	if r.Chance(1, 10) { // a second, independent damage
		out = damage(r, core.Pick(r, damageKinds), out, other)
		kind += "+"
	}
	return capLen(out, 16<<10), kind
}

var hsLoadArgs = []string{"main", "main", "main", "main/main.go", "", ".", "../x", "ma*n", "[m][a][i][n]", "[m]??[n]", "main/", "a/b", "vendor", "x.go", "main/x.go", "[", "main/[a", "ext", "_"}
var hsCallNames = []string{"main.main", "main.f0", "main.f1", "main.f2", "main.hook", "main.hook", "main.f", "main.init", "f", "math.Sqrt", "fmt.Println", "nope", "", "main.T", "builtin.__yield", "time.Sleep", "strings.Repeat", "main.x", "golang.org/x/exp/slices.SortFunc"}
var hsVias = []string{"", "", "", "", "native", "func", "sort", "yield", "init", "method"}

func (e hostsafe) genTree(r *core.PRNG) []core.DiskFile {
	c := Corpus()
	var files []core.DiskFile
	switch n := r.Intn(10); {
	case n < 4 && len(c.Trees) > 0:
		for _, f := range core.Pick(r, c.Trees) {
			files = append(files, core.DiskFile{Path: f.Path, Data: append([]byte(nil), f.Data...)})
		}
	case n < 6:
		w := GenWorld(r.Fork(), WorldOpts{MaxPkgs: 1 + r.Intn(5), Versions: 1, Decoys: true, Natives: core.Pick(r, []string{"none", "host"}), Cyclic: r.Chance(1, 6), Conflict: r.Chance(1, 8)})
		files = w.Snapshot(0)
	case n < 7:
		w := GenLiveWorld(r.Fork())
		v := r.Intn(w.Versions)
		for pk := range w.Pkgs {
			files = append(files, core.DiskFile{Path: w.InfraPath(pk), Data: []byte(w.Infra(pk))})
		}
		for _, f := range w.EntFiles() {
			files = append(files, core.DiskFile{Path: w.EntFilePath(f[0], f[1]), Data: []byte(w.EntFile(f[0], f[1], v))})
		}
	case n < 8:
		files = append(files, core.DiskFile{Path: "main/main.go", Data: []byte(GenWild(r.Fork(), true))})
	default:
		nf := 1 + r.Intn(4)
		for i := 0; i < nf; i++ {
			src, _ := e.genSource(r)
			dir := core.Pick(r, []string{"main", "main", "ext", "vendor/ext", "a/b", "main/sub"})
			files = append(files, core.DiskFile{Path: fmt.Sprintf("%s/f%d.go", dir, i), Data: src})
		}
	}
	// tree-level damage
	for i := range files {
		if r.Chance(1, 4) {
			files[i].Data, _ = e.damageFile(r, files[i].Data)
		}
	}
	switch r.Intn(20) {
	case 18, 19:
		// one more file in a package directory that holds nothing but its package clause (a doc.go
		// without the comment), sorted first or last
		dir := "main"
		if len(files) > 0 {
			dir = path.Dir(core.Pick(r, files).Path)
		}
		files = append(files, core.DiskFile{Path: dir + "/" + core.Pick(r, []string{"0doc.go", "zz_doc.go", "doc.go"}), Data: []byte("package " + core.Pick(r, []string{"main", path.Base(dir), path.Base(dir)}) + core.Pick(r, []string{"\n", "", "\n\n// end\n"}))})
	case 10, 11:
		// an import path (and a Load argument) with glob syntax that matches an existing directory
		dir := "main"
		if len(files) > 0 {
			dir = path.Dir(core.Pick(r, files).Path)
		}
		pat := ""
		for _, ch := range dir {
			switch {
			case ch == '/':
				pat += "/"
			case r.Chance(2, 3):
				pat += "[" + string(ch) + "]"
			case r.Chance(1, 2):
				pat += "?"
			default:
				pat += string(ch)
			}
		}
		if r.Chance(1, 3) {
			pat = "*" + pat[1:]
		}
		files = append(files, core.DiskFile{Path: "main/glob.go", Data: []byte("package main\nimport \"" + pat + "\"\nfunc main() {}\n")})
	case 8, 9:
		// one more file in a package directory, sorted before or after the others, whose package
		// clause is preceded by an operator or another stray token
		dir := "main"
		if len(files) > 0 {
			dir = path.Dir(core.Pick(r, files).Path)
		}
		files = append(files, core.DiskFile{Path: dir + "/" + core.Pick(r, []string{"0.go", "00.go", "A.go", "zzz.go", "_.go"}), Data: []byte(core.Pick(r, clausePrefixes) + "package " + core.Pick(r, []string{"main", "x", path.Base(dir), ""}) + "\n" + core.Pick(r, []string{"", "var q = 1\n", "func init() {}\n", "import \"fmt\"\n"}))})
	case 0:
		files = append(files, core.DiskFile{Path: "main/x.go/"}) // a directory named x.go
	case 1:
		files = append(files, core.DiskFile{Path: "main/empty.go", Data: nil})
	case 2:
		files = append(files, core.DiskFile{Path: "main/c.go", Data: []byte("// only a comment\n")})
	case 3:
		files = append(files, core.DiskFile{Path: "main/other.go", Data: []byte("package other\n")})
	case 4:
		files = append(files, core.DiskFile{Path: "main/a_test.go", Data: []byte("package main\nfunc init() { panic(1) }\n")})
	case 5:
		files = append(files, core.DiskFile{Path: "main/bc.go", Data: []byte("//go:build " + core.Pick(r, []string{"!goat", "goat && (", "ignore", "!", "goat ||", "linux,goat"}) + "\npackage main\n")})
	case 6: // import cycle
		files = append(files, core.DiskFile{Path: "main/cyc.go", Data: []byte("package main\nimport \"ca\"\n")},
			core.DiskFile{Path: "ca/a.go", Data: []byte("package ca\nimport \"cb\"\n")},
			core.DiskFile{Path: "cb/b.go", Data: []byte("package cb\nimport \"" + core.Pick(r, []string{"ca", "cb", "main"}) + "\"\n")})
	case 7:
		files = append(files, core.DiskFile{Path: "main/imp.go", Data: []byte("package main\nimport \"" + core.Pick(r, []string{"..", "a//b", "a/*", "/abs", "a/../b", "[", "\\\\", ""}) + "\"\n")})
	}
	return files
}

func (e hostsafe) damageFile(r *core.PRNG, b []byte) ([]byte, string) {
	kind := core.Pick(r, damageKinds)
	return capLen(damage(r, kind, b, core.Pick(r, Corpus().Snippets)), 16<<10), kind
}

func (e hostsafe) genParams(r *core.PRNG) []HSParam {
	n := r.Intn(4)
	ps := make([]HSParam, n)
	for i := range ps {
		switch r.Intn(7) {
		case 0:
			ps[i] = HSParam{Kind: "int", I: int64(r.Intn(200) - 100)}
		case 1:
			ps[i] = HSParam{Kind: "float", F: float64(r.Intn(1000)) / 8}
		case 2:
			ps[i] = HSParam{Kind: "string", S: core.Pick(r, []string{"", "a", "héllo", "\xff"})}
		case 3:
			ps[i] = HSParam{Kind: "bool", I: int64(r.Intn(2))}
		case 4:
			ps[i] = HSParam{Kind: "nil"}
		case 5:
			ps[i] = HSParam{Kind: "slice", I: int64(r.Intn(4))}
		default:
			ps[i] = HSParam{Kind: "byte", I: int64(r.Intn(256))}
		}
	}
	return ps
}

// deepGrouped: grouped declarations (a, b T) nested a dozen levels or more.
func deepGrouped(src string) bool {
	for _, g := range []string{"a, b func(", "a, b, c func(x, y int, ", "a, b struct { "} {
		if strings.Contains(src, strings.Repeat(g, 12)) {
			return true
		}
	}
	return false
}

func (e hostsafe) genCall(r *core.PRNG) HSCall {
	var c HSCall
	switch n := r.Intn(10); {
	case n < 5:
		c.Kind = "eval"
		c.Src, c.Damage = e.genSource(r)
		c.Name = core.Pick(r, []string{"stdin", "eval", "", "a b.go", "x/y.go"})
	case n < 8:
		c.Kind = "load"
		c.Name = core.Pick(r, hsLoadArgs)
	case n < 9:
		c.Kind = "call"
		c.Name = core.Pick(r, hsCallNames)
		c.XRets = r.Intn(4)
		c.Params = e.genParams(r)
	default:
		c.Kind = "func"
		c.Name = core.Pick(r, hsCallNames) // the function value is looked up with Get
		c.XRets = r.Intn(4)
		c.Params = e.genParams(r)
	}
	c.Tree, c.Code, c.Imports = r.Chance(1, 4), r.Chance(1, 4), r.Chance(1, 2)
	if c.Tree && deepGrouped(string(c.Src)) {
		// the tree dump of deeply nested grouped declarations is the listed known finding (its
		// canonical unit reproduces it in a process of its own); here it would only stall shards
		c.Tree = false
	}
	c.Via = core.Pick(r, hsVias)
	if c.Via != "" {
		c.Depth = r.Intn(3)
		c.Swallow = r.Chance(1, 3)
	}
	return c
}

func (e hostsafe) genPlan(r *core.PRNG) *HSPlan {
	p := &HSPlan{Seed: r.Uint64(), OptimizeOff: r.Chance(1, 4), Rich: r.Bool(), Budget: core.Pick(r, hsBudgets)}
	if r.Chance(1, 3) {
		p.Chunk = 1 + r.Intn(40)
	}
	p.Files = e.genTree(r)
	n := 1 + r.Intn(4)
	if r.Chance(1, 6) {
		n = 1 + r.Intn(8)
	}
	for i := 0; i < n; i++ {
		p.Calls = append(p.Calls, e.genCall(r))
	}
	for _, f := range p.Files {
		if deepGrouped(string(f.Data)) {
			for i := range p.Calls {
				p.Calls[i].Tree = false
			}
		}
	}
	// multi-fault sampling (single-fault sweeps are produced in RunUnit)
	if r.Chance(1, 4) {
		nf := 1 + r.Intn(3)
		for i := 0; i < nf; i++ {
			p.DiskFaults = append(p.DiskFaults, core.DiskFault{Op: 1 + r.Intn(30), Kind: core.Pick(r, hsDiskFaultKinds), Arg: r.Intn(64)})
		}
	}
	if r.Chance(1, 8) && len(p.Files) > 0 {
		f := core.Pick(r, p.Files)
		nd, _ := e.damageFile(r, f.Data)
		p.DiskEdits = append(p.DiskEdits, core.DiskEdit{AtOp: 1 + r.Intn(20), Path: f.Path, Data: nd, Delete: r.Chance(1, 4), InPlace: r.Bool()})
	}
	if r.Chance(1, 5) {
		p.WriterFaults = append(p.WriterFaults, HSWriterFault{Writer: core.Pick(r, []string{"stdout", "tree", "code"}), At: 1 + r.Intn(6), Mode: core.Pick(r, []string{"error", "short"})})
	}
	if r.Chance(1, 4) {
		p.NativeFaults = append(p.NativeFaults, HSNativeFault{At: 1 + r.Intn(6), Kind: core.Pick(r, hsNativeFaultKinds)})
	}
	return p
}

var hsDiskFaultKinds = []string{"eio-open", "eacces-open", "eio-read", "eio-readdir", "vanish"}
var hsNativeFaultKinds = []string{"string", "error", "runtime", "custom"}

// RunUnit: most units are one sampled session. Every 16th unit (all of them
// in the thorough tier's second half) is a sweep: the clean session first,
// then one run per disk operation, per writer write and per native invocation
// with a single fault at exactly that position.
// hsCanonical are the inputs of the listed known findings; they are executed in every run
// (units 0 and 1), so that a listed finding is reproduced - or seen to be gone - each time.
func hsCanonical(i int) *HSPlan {
	switch i {
	case 0:
		return &HSPlan{Budget: 200000, Calls: []HSCall{{Kind: "eval", Name: "known-finding-1", Src: core.Bytes("a := []int{0, 0}; " + NestedOpAssign(20))}}}
	case 1:
		return &HSPlan{Budget: 200000, Calls: []HSCall{{Kind: "eval", Name: "known-finding-2", Tree: true, Src: core.Bytes(SharedStructType(25))}}}
	}
	return nil
}

func (hostsafe) CanonicalUnits() int { return 2 }

func (e hostsafe) RunUnit(seed uint64, tier string, unit int, exec func(plan any) *core.Result) {
	if p := hsCanonical(unit); p != nil {
		exec(p)
		return
	}
	r := core.NewPRNG(core.Mix(seed, 0xC03, uint64(unit)))
	p := e.genPlan(r)
	sweep := unit%13 == 7
	if tier == "thorough" && unit%3 == 1 {
		sweep = true
	}
	if !sweep {
		exec(p)
		return
	}
	p.DiskFaults, p.WriterFaults, p.NativeFaults = nil, nil, nil
	// make sure the swept session has something to fault
	if len(p.Calls) > 0 && r.Bool() {
		p.Calls[0].Kind, p.Calls[0].Name, p.Calls[0].Tree, p.Calls[0].Code = "load", "main", true, true
	}
	clean := exec(p)
	ops := int(clean.Counters["disk_ops"])
	if ops > 48 {
		ops = 48
	}
	for op := 1; op <= ops; op++ {
		q := core.CloneJSON(p)
		q.DiskFaults = []core.DiskFault{{Op: op, Kind: hsDiskFaultKinds[(op+unit)%len(hsDiskFaultKinds)], Arg: (op * 7) % 50}}
		exec(q)
	}
	for _, w := range []string{"stdout", "tree", "code"} {
		n := int(clean.Counters["writes_"+w])
		if n > 12 {
			n = 12
		}
		for at := 1; at <= n; at++ {
			q := core.CloneJSON(p)
			q.WriterFaults = []HSWriterFault{{Writer: w, At: at, Mode: []string{"error", "short"}[(at+unit)%2]}}
			exec(q)
		}
	}
	nf := int(clean.Counters["native_fail_calls"])
	if nf > 12 {
		nf = 12
	}
	for at := 1; at <= nf; at++ {
		q := core.CloneJSON(p)
		q.NativeFaults = []HSNativeFault{{At: at, Kind: hsNativeFaultKinds[(at+unit)%4]}}
		exec(q)
	}
}

// --- execution ---------------------------------------------------------------

type customPanic struct{ N int }

var stageRe = regexp.MustCompile(`^error in (tokenize|parse|loadImports|load|compile \(imports\)|compile|run \(imports\)|run): `)
var digitsRe = regexp.MustCompile(`[0-9]+`)

func normErr(s string, n int) string {
	s = digitsRe.ReplaceAllString(s, "N")
	if i := strings.IndexByte(s, '\n'); i >= 0 {
		s = s[:i]
	}
	if len(s) > n {
		s = s[:n]
	}
	return s
}

type hsRun struct {
	p        *HSPlan
	h        *core.Host
	res      *core.Result
	abs      []string
	failN    int
	tree     *core.SimWriter
	code     *core.SimWriter
	imports  map[string]string
	pending  *HSCall // call to deliver at the next yield / nest
	nestLeft int
	swallow  bool
}

func (hostsafe) Execute(plan any, keep bool) *core.Result {
	p := plan.(*HSPlan)
	res := &core.Result{Counters: core.Counters{}}
	hist := core.NewHistory(keep)
	disk := core.NewSimDisk(p.Files, hist)
	disk.Rich, disk.Chunk = p.Rich, p.Chunk
	disk.Faults, disk.Edits = p.DiskFaults, p.DiskEdits
	disk.Mute = !keep
	run := &hsRun{p: p, res: res, imports: map[string]string{}}
	run.h = core.NewHost(p.Seed, disk, hist, run.natives)
	run.h.Budget = p.Budget
	run.tree = &core.SimWriter{Name: "tree", Fired: run.h.C, MaxKeep: 1 << 16}
	run.code = &core.SimWriter{Name: "code", Fired: run.h.C, MaxKeep: 1 << 16}
	run.h.Stdout.MaxKeep = 1 << 16
	for _, wf := range p.WriterFaults {
		w := map[string]*core.SimWriter{"stdout": run.h.Stdout, "tree": run.tree, "code": run.code}[wf.Writer]
		if w != nil {
			w.FailAt, w.Mode = wf.At, wf.Mode
		}
	}
	run.h.OnYield = func(h *core.Host) {
		if c := run.pending; c != nil {
			run.pending = nil
			run.perform(c)
		}
	}
	goatlang.VerifOptimizeOff = p.OptimizeOff
	defer func() { goatlang.VerifOptimizeOff = false; goatlang.VerifSetBudget(-1) }()

	for i := range p.Calls {
		run.deliver(&p.Calls[i])
	}

	// verdict: escapes
	for i, esc := range run.h.Escapes {
		site := run.h.EscapeSites[i]
		if strings.HasPrefix(site, "HARNESS ") {
			res.Fail("HARNESS", "panic", site, "the simulator's own code panicked under an entry point: %s: %s", site, esc)
			continue
		}
		key := site
		if j := strings.Index(key, " < "); j >= 0 {
			key = key[:j] // the raising line identifies the defect
		}
		res.Fail("C03", "C03/escape", key, "a Go panic escaped an entry point: %s [raised at %s]", esc, site)
	}
	res.Counters.Merge(run.h.C)
	res.Counters.Merge(disk.Fired.Prefixed("fault:"))
	res.Counters.Add("disk_ops", int64(disk.Ops))
	res.Counters.Add("writes_stdout", int64(run.h.Stdout.Writes))
	res.Counters.Add("writes_tree", int64(run.tree.Writes))
	res.Counters.Add("writes_code", int64(run.code.Writes))
	res.Counters.Add("native_fail_calls", int64(run.failN))
	res.Counters.Add("budget_exhausted", int64(run.h.BudgetHits))
	res.Counters.Add("yields", int64(run.h.Yields))
	for _, k := range []string{"write-error", "write-short"} {
		if v := run.h.C[k]; v > 0 {
			res.Counters.Add("fault:"+k, v)
			delete(res.Counters, k)
		}
	}
	fired := false
	var fk []string
	for _, k := range res.Counters.Keys() {
		if strings.HasPrefix(k, "fault:") && res.Counters[k] > 0 {
			fired = true
			fk = append(fk, k[6:])
		}
	}
	res.Nontrivial = fired || run.h.MaxDepth > 1
	res.Abstract = strings.Join(run.abs, ";") + "#" + strings.Join(fk, ",")
	res.Hash = hist.Hash()
	res.SimTime = run.h.Clock
	res.Steps = len(p.Calls)
	res.History = hist
	return res
}
