package engines

import (
	"errors"
	"fmt"
	"math"
	"strings"

	"github.com/philhassey/goatlang"

	"goatsim/core"
)

// boundary decides C19: the embedding API passes values faithfully in both
// directions, and an error raised inside a native callback or a nested call
// surfaces as the error of the outer call.

// BVal describes a value independently of goatlang.
type BVal struct {
	K  string  `json:"k"` // int32 uint8 int8 uint32 float64 string bool nil slice untyped
	I  int64   `json:"i,omitempty"`
	F  float64 `json:"f,omitempty"`
	S  string  `json:"s,omitempty"`
	B  []byte  `json:"b,omitempty"` // string payload when not valid UTF-8
	Sl []BVal  `json:"sl,omitempty"`
	An bool    `json:"any,omitempty"` // slice: element type any ([]any)
}

func (b BVal) str() string {
	if b.B != nil {
		return string(b.B)
	}
	return b.S
}

func (b BVal) value() goatlang.Value {
	switch b.K {
	case "int32":
		return goatlang.Int32(int32(b.I))
	case "uint8":
		return goatlang.Uint8(uint8(b.I))
	case "int8":
		return goatlang.Int8(int8(b.I))
	case "uint32":
		return goatlang.Uint32(uint32(b.I))
	case "float64":
		return goatlang.Float64(b.F)
	case "string":
		return goatlang.String(b.str())
	case "bool":
		return goatlang.Bool(b.I != 0)
	case "slice":
		vs := make([]goatlang.Value, len(b.Sl))
		for i, e := range b.Sl {
			vs[i] = e.value()
		}
		t := goatlang.TypeInt32
		if len(b.Sl) > 0 && b.Sl[0].K == "string" {
			t = goatlang.TypeString
		}
		if b.An {
			t = goatlang.TypeNil // []any
		}
		return goatlang.NewSlice(t, vs)
	}
	return goatlang.Nil()
}

var bTypes = map[string]goatlang.Type{"int32": goatlang.TypeInt32, "uint8": goatlang.TypeUint8, "int8": goatlang.TypeInt8, "uint32": goatlang.TypeUint32,
	"float64": goatlang.TypeFloat64, "string": goatlang.TypeString, "bool": goatlang.TypeBool, "nil": goatlang.TypeNil, "slice": goatlang.TypeSlice}

// matches compares what arrived with what was sent: payload always, dynamic
// type when the sent operand was typed.
func (b BVal) matches(v goatlang.Value) bool {
	switch b.K {
	case "untyped":
		return v.Type()&3 != 0 && v.Float64() == float64(b.I)
	case "int32", "uint8", "int8", "uint32":
		return v.Type() == bTypes[b.K] && v.Float64() == float64(b.I)
	case "float64":
		return v.Type() == goatlang.TypeFloat64 && math.Float64bits(v.Float64()) == math.Float64bits(b.F)
	case "string":
		return v.Type() == goatlang.TypeString && v.String() == b.str()
	case "bool":
		return v.Type() == goatlang.TypeBool && v.Bool() == (b.I != 0)
	case "nil":
		return v.IsNil()
	case "slice":
		if v.Type() != goatlang.TypeSlice || v.Len() != len(b.Sl) {
			return false
		}
		next := v.Range()
		for i := 0; ; i++ {
			_, e, ok := next()
			if !ok {
				return i == len(b.Sl)
			}
			if i >= len(b.Sl) || !b.Sl[i].matches(e) {
				return false
			}
		}
	}
	return false
}

func (b BVal) String() string {
	switch b.K {
	case "float64":
		return fmt.Sprintf("float64(%v)", b.F)
	case "string":
		return fmt.Sprintf("string(%q)", b.str())
	case "slice":
		return fmt.Sprintf("slice%v", b.Sl)
	case "nil":
		return "nil"
	}
	return fmt.Sprintf("%s(%d)", b.K, b.I)
}

func describe(v goatlang.Value) string { return core.ValueString(v) }

var bPool = []BVal{
	{K: "int32", I: 0}, {K: "int32", I: 1}, {K: "int32", I: -1}, {K: "int32", I: 41}, {K: "int32", I: math.MaxInt32}, {K: "int32", I: math.MinInt32},
	{K: "uint8", I: 0}, {K: "uint8", I: 200}, {K: "uint8", I: 255}, {K: "int8", I: -128}, {K: "int8", I: 127}, {K: "int8", I: -1},
	{K: "uint32", I: 0}, {K: "uint32", I: math.MaxUint32}, {K: "uint32", I: 1 << 31},
	{K: "float64", F: 0}, {K: "float64", F: math.Copysign(0, -1)}, {K: "float64", F: 1.5}, {K: "float64", F: -2.25e10}, {K: "float64", F: math.MaxFloat64}, {K: "float64", F: math.SmallestNonzeroFloat64}, {K: "float64", F: math.Inf(1)}, {K: "float64", F: 1e21},
	{K: "string", S: ""}, {K: "string", S: "a"}, {K: "string", S: "héllo wörld"}, {K: "string", B: []byte{0xff, 0xfe, 'x'}}, {K: "string", S: "with \"quotes\"\n"},
	{K: "string", S: "é"}, {K: "string", S: "ë"}, {K: "string", S: "€"}, {K: "string", S: "→"}, {K: "string", S: "x"},
	{K: "bool", I: 1}, {K: "bool", I: 0}, {K: "nil"},
	{K: "slice", Sl: []BVal{{K: "int32", I: 1}, {K: "int32", I: 2}}}, {K: "slice"}, {K: "slice", Sl: []BVal{{K: "string", S: "x"}, {K: "string", S: ""}}},
	{K: "slice", An: true, Sl: []BVal{{K: "int32", I: 7}, {K: "string", S: "eight"}, {K: "float64", F: 9.5}}}, {K: "slice", An: true}, {K: "slice", An: true, Sl: []BVal{{K: "nil"}}},
}

// BArg is one argument expression of a call site.
type BArg struct {
	Kind string `json:"kind"`          // pool (variable holding pool value N), lit (untyped int / float / string / bool literal), loop (loop variable), site (result 0 of nested site N)
	N    int    `json:"n,omitempty"`   // pool index or nested site index
	Lit  BVal   `json:"lit,omitempty"` // literal value
}

// BNative is one host native.
type BNative struct {
	Form    int  `json:"form"` // 1..6 as in NewFunc's type switch
	Argc    int  `json:"argc"` // declared argc (form 6: fixed + 1); includes the leading site id for forms 3-6
	Rets    int  `json:"rets"`
	Numeric bool `json:"numeric,omitempty"` // returns small int32s (usable inside arithmetic)
}

// BSite is one call site in the script.
type BSite struct {
	Native  int    `json:"native"`
	Ctx     string `json:"ctx"` // stmt assign expr nested fnvar loop viafn method reenter sort
	Args    []BArg `json:"args,omitempty"`
	Spread  bool   `json:"spread,omitempty"`  // last variadic argument is a spread pool slice
	Want    int    `json:"want,omitempty"`    // results requested by the script
	Inner   int    `json:"inner,omitempty"`   // reenter: index (into Sites) of the site inside the callback
	Handled bool   `json:"handled,omitempty"` // reenter: the native handles the nested error
	Skip    bool   `json:"skip,omitempty"`    // only reachable from another site (callback body / nested argument)
	Recurse bool   `json:"recurse,omitempty"` // reenter: the callback calls the very native that is re-entering (the native reads its args again afterwards)
}

type BFault struct {
	Native int    `json:"native"`
	Nth    int    `json:"nth"`  // n-th invocation of that native (1-based)
	Kind   string `json:"kind"` // string | error
}

type BHostCall struct {
	Fn     string `json:"fn"` // idA_B or typed
	A      int    `json:"a"`
	B      int    `json:"b"`
	XRets  int    `json:"x_rets"`
	Params []int  `json:"params"` // pool indexes
	Func   bool   `json:"func,omitempty"`
}

type BPlan struct {
	Seed        uint64      `json:"seed"`
	Natives     []BNative   `json:"natives"`
	Sites       []BSite     `json:"sites"`
	Faults      []BFault    `json:"faults,omitempty"`
	HostCalls   []BHostCall `json:"host_calls,omitempty"`
	OptimizeOff bool        `json:"optimize_off,omitempty"`
	Rounds      int         `json:"rounds,omitempty"` // work() is called this many times (>= 1) through the same VM handle
}

type boundary struct{}

func init() { core.Register(boundary{}) }

func (boundary) Property() string { return "C19" }
func (boundary) Name() string     { return "boundary" }
func (boundary) NewPlan() any     { return &BPlan{} }
func (boundary) Units(tier string) int {
	if tier == "thorough" {
		return 20000000
	}
	return 220000
}

func (boundary) Describe() core.EngineInfo {
	return core.EngineInfo{
		Level: "exploration",
		Rule: "a case is one VM with a random set of host natives (the six NewFunc forms x arity 0-6 x 0-4 results, variadic tails), a generated script calling them as statements, in multi-assignments, inside arithmetic with live operands, as arguments of natives and script functions, through function variables, in loops, methods, callbacks re-entering the VM (Func) and sort comparators, " +
			"plus host-side Call/Func of script identity functions with every requested result count, of functions returning constants under mixed declared result types, NewStruct/SetAttr/GetAttr instance sequences interleaved with script reads, writes and literals, (value, err) natives alternating error objects and nil, every scalar constructor with its boundary values, natives registered under builtin names, package variables holding natives re-assigned between calls; a fault plan makes the n-th invocation of a native panic (propagated or handled by an intermediate native). Each native checks what it received against what the script passed; each result is echoed back and checked. " +
			"non-trivial = a native fault fired or a call re-entered the VM; distinct = (forms x contexts exercised, fault depth, handled/propagated, outcome)",
		Real:       []string{"goatlang NewFunc adapters, call/callReady, mkFunc, newMethod, VM.Call/Func/Set/Get, constructors and accessors, slices.SortFunc native"},
		Stubs:      []string{"host natives are the simulator's (they are the seam)", "SimDisk serves the script"},
		Assumes:    []string{"an untyped constant passed to a native arrives as goatlang's untyped number: payload compared, type not", "scalars, nil and slices of scalars only", "natives that break their own declared result count are host bugs and are not injected"},
		ProbesWant: []string{"form_1", "form_2", "form_3", "form_4", "form_5", "form_6", "ctx_stmt", "ctx_stmtret", "ctx_swstmt", "ctx_litret", "hostcall_tryseq", "hostcall_globalfn", "hostcall_loaderstub", "ctx_andor", "hostcall_ctors", "hostcall_shadow", "ctx_vardecl", "ctx_assign", "ctx_expr", "ctx_nested", "ctx_fnvar", "ctx_loop", "ctx_viafn", "ctx_method", "ctx_objmethod", "ctx_reenter", "ctx_recurse", "ctx_sort", "hostcall_swap", "hostcall_variadic", "hostcall_reuse", "hostcall_redefine", "hostcall_consts", "hostcall_structs", "big_literal_arg", "round_2", "fault_propagated", "fault_handled", "hostcall_ok", "hostcall_too_many", "spread"},
	}
}

// --- generation ----------------------------------------------------------------

func (e boundary) genPlan(r *core.PRNG) *BPlan {
	p := &BPlan{Seed: r.Uint64(), OptimizeOff: r.Chance(1, 3), Rounds: 1 + r.Intn(3)}
	nn := 2 + r.Intn(9)
	for i := 0; i < nn; i++ {
		n := BNative{Form: 1 + r.Intn(6)}
		switch n.Form {
		case 1:
		case 2:
			n.Rets = 1
		case 3:
			n.Argc = 1 + r.Intn(7)
		case 4:
			n.Argc, n.Rets = 1+r.Intn(7), 1
		case 5:
			n.Argc, n.Rets = 1+r.Intn(7), r.Intn(5)
		case 6:
			n.Argc, n.Rets = 2+r.Intn(5), r.Intn(5)
		}
		n.Numeric = n.Rets >= 1 && r.Bool()
		p.Natives = append(p.Natives, n)
	}
	var gen func(ctxs []string, depth int) int
	genArgs := func(n BNative, ctx string, depth int) ([]BArg, bool) {
		var args []BArg
		cnt := n.Argc - 1
		spread := false
		if n.Form == 6 {
			cnt = n.Argc - 2 + r.Intn(4) // fixed (argc-2 after the site id) + 0..3 variadic
			if r.Chance(1, 4) {
				cnt = n.Argc - 2
				spread = true
			}
		}
		if n.Form <= 2 {
			cnt = 0
		}
		fixed := cnt
		if n.Form == 6 {
			fixed = n.Argc - 2
		}
		for i := 0; i < cnt; i++ {
			switch k := r.Intn(10); {
			case k < 5:
				args = append(args, BArg{Kind: "pool", N: r.Intn(len(bPool))})
			case k < 7:
				lit := int64(r.Intn(2000) - 1000)
				if i < fixed && r.Chance(1, 4) {
					// an integer constant beyond int32, written directly in a fixed argument position
					// (colours, nanoseconds, ...); variadic positions are left alone: those are packed
					// with the default type int, where such a constant does not fit
					lit = core.Pick(r, []int64{4278190080, 1700000000000, 1 << 31, -3000000000, math.MaxInt32, math.MinInt32, math.MaxUint32, 1 << 40})
				}
				arg := BArg{Kind: "lit", Lit: BVal{K: "untyped", I: lit}}
				if r.Chance(1, 6) {
					// a rune literal: the native receives its code point
					ru := core.Pick(r, []rune{'a', 'é', 'ÿ', 'Ā', '世', '€', '😀', ' ', '~'})
					arg.Lit = BVal{K: "untyped", I: int64(ru), S: string(ru)}
				}
				args = append(args, arg)
			case k < 8:
				args = append(args, BArg{Kind: "lit", Lit: core.Pick(r, []BVal{{K: "string", S: "lit"}, {K: "bool", I: 1}, {K: "float64", F: 2.5}, {K: "nil"}})})
			case k < 9 && ctx == "loop":
				args = append(args, BArg{Kind: "loop"})
			case k < 10 && depth < 2:
				// a nested native call as an argument
				in := gen([]string{"nestedarg"}, depth+1)
				if in >= 0 {
					args = append(args, BArg{Kind: "site", N: in})
				} else {
					args = append(args, BArg{Kind: "pool", N: r.Intn(len(bPool))})
				}
			default:
				args = append(args, BArg{Kind: "pool", N: r.Intn(len(bPool))})
			}
		}
		return args, spread
	}
	gen = func(ctxs []string, depth int) int {
		ctx := core.Pick(r, ctxs)
		ni := r.Intn(len(p.Natives))
		n := p.Natives[ni]
		if ctx == "nestedarg" || ctx == "andor" || ctx == "expr" || ctx == "viafn" || ctx == "method" || ctx == "callback" || ctx == "objmethod" || ctx == "litret" {
			// needs at least one result
			found := -1
			for try := 0; try < 8; try++ {
				c := r.Intn(len(p.Natives))
				if p.Natives[c].Rets >= 1 && ((ctx != "expr" && ctx != "andor") || p.Natives[c].Numeric) && (ctx == "expr" || ctx == "andor" || ctx == "viafn" || ctx == "litret" || p.Natives[c].Form >= 3) {
					found = c
					break
				}
			}
			if found < 0 {
				return -1
			}
			ni, n = found, p.Natives[found]
		}
		s := BSite{Native: ni, Ctx: ctx}
		if ctx == "nestedarg" || ctx == "callback" {
			s.Skip = true
		}
		idx := len(p.Sites)
		p.Sites = append(p.Sites, s)
		args, spread := genArgs(n, ctx, depth)
		if ctx == "objmethod" {
			for i := range args {
				if args[i].Kind == "site" || args[i].Kind == "loop" {
					args[i] = BArg{Kind: "pool", N: r.Intn(len(bPool))}
				}
			}
		}
		if ctx == "method" || ctx == "callback" {
			// the body receives one value x and passes it on: first argument is x, the rest pool values
			for i := range args {
				if args[i].Kind == "site" || args[i].Kind == "loop" || i == 0 {
					args[i] = BArg{Kind: "pool", N: r.Intn(len(bPool))}
				}
			}
		}
		p.Sites[idx].Args, p.Sites[idx].Spread = args, spread
		switch ctx {
		case "assign":
			p.Sites[idx].Want = r.Intn(n.Rets + 1)
		case "expr", "andor", "nestedarg", "viafn", "method", "callback", "objmethod":
			p.Sites[idx].Want = 1
		case "vardecl":
			// var a, b any = N(...): needs a native with at least two results
			if n.Rets >= 2 {
				p.Sites[idx].Want = n.Rets
			} else {
				p.Sites[idx].Ctx = "assign"
				p.Sites[idx].Want = r.Intn(n.Rets + 1)
			}
		case "litret":
			p.Sites[idx].Want = n.Rets
		case "fnvar":
			if n.Rets >= 1 {
				p.Sites[idx].Want = 1
			}
		case "reenter":
			in := gen([]string{"callback"}, depth+1)
			if in < 0 {
				p.Sites[idx].Ctx = "stmt"
			} else {
				p.Sites[idx].Inner, p.Sites[idx].Handled = in, r.Chance(1, 2)
			}
		case "recurse":
			// the native at this site re-enters the VM through a callback that calls the same native
			in := gen([]string{"callback"}, depth+1)
			if in < 0 || depth > 0 {
				p.Sites[idx].Ctx = "stmt"
			} else {
				p.Sites[idx].Inner = in
				p.Sites[idx].Native = p.Sites[in].Native
				nat := p.Natives[p.Sites[in].Native]
				args, spread := genArgs(nat, "stmt", 2)
				p.Sites[idx].Args, p.Sites[idx].Spread = args, spread
			}
		}
		return idx
	}
	ns := 2 + r.Intn(10)
	for i := 0; i < ns; i++ {
		gen([]string{"stmt", "stmtret", "swstmt", "litret", "vardecl", "andor", "assign", "assign", "expr", "nested", "fnvar", "loop", "viafn", "method", "objmethod", "objmethod", "reenter", "recurse", "sort"}, 0)
	}
	if r.Chance(1, 2) {
		nf := 1 + r.Intn(2)
		for i := 0; i < nf; i++ {
			p.Faults = append(p.Faults, BFault{Native: r.Intn(len(p.Natives)), Nth: 1 + r.Intn(3), Kind: core.Pick(r, bFaultKinds)})
		}
	}
	nh := r.Intn(6)
	for i := 0; i < nh; i++ {
		a := r.Intn(7)
		b := r.Intn(5)
		if b > a {
			b = a
		}
		h := BHostCall{Fn: "id", A: a, B: b, XRets: r.Intn(b + 2), Func: r.Bool()}
		swapA := 1 + r.Intn(4)
		if r.Chance(1, 5) {
			h = BHostCall{Fn: "typed", A: 5, B: 5, XRets: 5, Func: r.Bool()}
		}
		if r.Chance(1, 5) {
			h = BHostCall{Fn: "swap", A: swapA}
			a = swapA
		}
		if r.Chance(1, 6) {
			a = 1 + r.Intn(6)
			h = BHostCall{Fn: "variadic", A: a}
		}
		if r.Chance(1, 6) {
			a = 1 + r.Intn(4)
			h = BHostCall{Fn: "reuse", A: a}
		}
		if r.Chance(1, 8) {
			h = BHostCall{Fn: "redefine", A: r.Intn(6)}
			a = 3
		}
		if r.Chance(1, 8) {
			h = BHostCall{Fn: "consts", B: r.Intn(1000), Func: r.Bool()}
		}
		if r.Chance(1, 8) {
			h = BHostCall{Fn: "structs", B: r.Intn(1000000)}
		}
		if r.Chance(1, 8) {
			h = BHostCall{Fn: "tryseq", B: r.Intn(1 << 14)}
		}
		if r.Chance(1, 10) {
			h = BHostCall{Fn: "ctors", Func: r.Bool()}
		}
		if r.Chance(1, 10) {
			h = BHostCall{Fn: "shadow"}
		}
		if r.Chance(1, 10) {
			h = BHostCall{Fn: "globalfn", B: 2 + r.Intn(3)}
		}
		if r.Chance(1, 12) {
			h = BHostCall{Fn: "loaderstub"}
		}
		np := h.A
		if h.Fn == "redefine" {
			np = 3
		}
		for j := 0; j < np; j++ {
			h.Params = append(h.Params, r.Intn(len(bPool)))
		}
		p.HostCalls = append(p.HostCalls, h)
	}
	return p
}

func (e boundary) RunUnit(seed uint64, tier string, unit int, exec func(plan any) *core.Result) {
	r := core.NewPRNG(core.Mix(seed, 0xC19, uint64(unit)))
	p := e.genPlan(r)
	res := exec(p)
	if tier != "thorough" || unit%6 != 0 || !res.OK() {
		return
	}
	// single-fault sweep: every invocation of every native fails once
	for k := range p.Natives {
		n := int(res.Counters[fmt.Sprintf("invocations_native_%d", k)])
		if n > 6 {
			n = 6
		}
		for nth := 1; nth <= n; nth++ {
			q := core.CloneJSON(p)
			q.Faults = []BFault{{Native: k, Nth: nth, Kind: bFaultKinds[(k+nth)%len(bFaultKinds)]}}
			exec(q)
		}
	}
}

// --- rendering -------------------------------------------------------------------

func bLit(v BVal) string {
	switch v.K {
	case "untyped":
		if v.S != "" {
			return "'" + v.S + "'"
		}
		return fmt.Sprint(v.I)
	case "string":
		return fmt.Sprintf("%q", v.S)
	case "bool":
		if v.I != 0 {
			return "true"
		}
		return "false"
	case "float64":
		return fmt.Sprint(v.F)
	}
	return "nil"
}

func (p *BPlan) argExprs(si int, loopVar, x string) []string {
	s := p.Sites[si]
	var out []string
	for i, a := range s.Args {
		switch a.Kind {
		case "pool":
			out = append(out, fmt.Sprintf("v%d", a.N))
		case "lit":
			out = append(out, bLit(a.Lit))
		case "loop":
			out = append(out, loopVar)
		case "site":
			out = append(out, p.callExpr(a.N, "", ""))
		}
		if i == 0 && x != "" {
			out[0] = x
		}
	}
	return out
}

// callExpr renders the call of site si (no G assignment: usable inside expressions).
func (p *BPlan) callExpr(si int, loopVar, x string) string {
	s := p.Sites[si]
	n := p.Natives[s.Native]
	args := p.argExprs(si, loopVar, x)
	if n.Form <= 2 {
		return fmt.Sprintf("host.N%d()", s.Native)
	}
	all := append([]string{fmt.Sprint(si)}, args...)
	if s.Spread {
		all = append(all, "vSpread...")
	}
	return fmt.Sprintf("host.N%d(%s)", s.Native, strings.Join(all, ", "))
}

func (p *BPlan) render() string {
	var b strings.Builder
	ln := func(f string, a ...any) { fmt.Fprintf(&b, f+"\n", a...) }
	ln("package main")
	ln(`import "host"`)
	ln(`import "golang.org/x/exp/slices"`)
	ln(`import "os"`)
	ln("var G int")
	ln("type T struct { A int }")
	ln("func getG() int { return G }")
	for a := 0; a <= 6; a++ {
		var ps, names []string
		for i := 0; i < a; i++ {
			ps = append(ps, fmt.Sprintf("p%d any", i))
			names = append(names, fmt.Sprintf("p%d", i))
		}
		for bb := 0; bb <= 4 && bb <= a; bb++ {
			rt := strings.TrimSuffix(strings.Repeat("any, ", bb), ", ")
			ret := ""
			if bb > 0 {
				ret = "return " + strings.Join(names[:bb], ", ")
			}
			ln("func id%d_%d(%s) (%s) { %s }", a, bb, strings.Join(ps, ", "), rt, ret)
		}
	}
	ln("func typed(a int, b string, c float64, d bool, e byte) (int, string, float64, bool, byte) { return a, b, c, d, e }")
	ln("func vid(a any, rest ...any) (any, int, any) { if len(rest) > 0 { return a, len(rest), rest[len(rest)-1] }; return a, 0, nil }")
	ln("func pass1(a any, b any) any { return a }")
	for i, k := range bConsts {
		ln("func k%d() (%s) { %s }", i, k.types, k.body)
	}
	// natives of the (value, err) shape: variables, a package variable and a struct field receive an
	// error object at some calls and nil at others
	// a package variable holding a native, called, re-assigned by the script, called again
	// natives the host registered through WithLoaders under names the library also defines
	ln("func stubcheck() (int, bool, int) { b, err := os.ReadFile(\"main/main.go\"); return len(b), err == nil, len(os.Args) }")
	ln("var gh = host.GA")
	ln("func ghseq() { host.GObs(1, gh(1)); gh = host.GB; host.GObs(2, gh(2)); gh = host.GA; host.GObs(3, gh(3)) }")
	ln("func shadowed() { println(7, \"x\"); print(\"y\"); println() }")
	ln("var GE any")
	ln("type EH struct { E any }")
	ln("func tryseq() {")
	ln("\tv, err := host.Try(0)")
	ln("\thost.TryObs(0, v, err == nil)")
	for i := 1; i < 4; i++ {
		ln("\tv, err = host.Try(%d)", i)
		ln("\thost.TryObs(%d, v, err == nil)", i)
	}
	ln("\tfor i := 4; i < 8; i++ {")
	ln("\t\tw, e := host.Try(i)")
	ln("\t\thost.TryObs(i, w, e == nil)")
	ln("\t}")
	ln("\th := &EH{}")
	ln("\tfor i := 8; i < 11; i++ {")
	ln("\t\tw, e := host.Try(i)")
	ln("\t\tGE = e")
	ln("\t\thost.TryObs(i, w, GE == nil)")
	ln("\t}")
	ln("\tfor i := 11; i < 14; i++ {")
	ln("\t\tw, e := host.Try(i)")
	ln("\t\th.E = e")
	ln("\t\thost.TryObs(i, w, h.E == nil)")
	ln("\t}")
	ln("}")
	ln("type T2 struct { A int; B string; C float64 }")
	ln("func setA(t *T2, v int) { t.A = v }")
	ln("func sumT2(t *T2) int { return t.A + len(t.B) }")
	ln("func mkT2() *T2 { return &T2{} }")
	ln("func mkT2B(b string) *T2 { return &T2{B: b} }")
	// callbacks and methods wrap an inner site
	for si, s := range p.Sites {
		switch s.Ctx {
		case "callback":
			ln("func cb%d(x any) any { host.At(%d); G = %d; return %s }", si, si, si, p.callExpr(si, "", "x"))
		case "method":
			ln("func (t *T) m%d(x any) any { host.At(%d); G = %d; return %s }", si, si, si, p.callExpr(si, "", "x"))
		case "objmethod":
			// the native as a method of a wrapped host object held in a local variable (a parameter)
			call := strings.Replace(p.callExpr(si, "", ""), fmt.Sprintf("host.N%d(", s.Native), fmt.Sprintf("o.M%d(", s.Native), 1)
			ln("func om%d(o any) any { host.At(%d); G = %d; return %s }", si, si, si, call)
		case "swstmt":
			// the same, with the call statement directly inside a switch case
			ln("func ss%d(k int) any { host.At(%d); G = %d; switch k { case 1: %s; default: G = G + 0 }; return 12345 }", si, si, si, p.callExpr(si, "", ""))
		case "litret":
			// a function literal whose result count differs from the enclosing function's returns
			// the native's results through a tail call
			outer, oret := "any", "return 0"
			if s.Want == 1 {
				outer, oret = "(any, any)", "return 0, 0"
			}
			var rs []string
			for i := 0; i < s.Want; i++ {
				rs = append(rs, fmt.Sprintf("a%d", i))
			}
			lt := strings.TrimSuffix(strings.Repeat("any, ", s.Want), ", ")
			ln("func lr%d() %s { host.At(%d); G = %d; f := func() (%s) { return %s }; %s := f(); host.Obs(%d, %s); %s }", si, outer, si, si, lt, p.callExpr(si, "", ""), strings.Join(rs, ", "), si, strings.Join(rs, ", "), oret)
		case "stmtret":
			// a native called as a statement inside a value-returning function: its
			// results must not leak into the function's own result
			ln("func sr%d() any { host.At(%d); G = %d; %s; return 12345 }", si, si, si, p.callExpr(si, "", ""))
		}
	}
	for i := range bPool {
		ln("var v%d = host.Give(%d)", i, i)
	}
	ln("var vSpread = host.Give(-1)")
	ln("var hobj = host.Obj()")
	ln("func work() {")
	for si, s := range p.Sites {
		if s.Skip {
			continue
		}
		n := p.Natives[s.Native]
		pre := fmt.Sprintf("\thost.At(%d); G = %d; ", si, si)
		switch s.Ctx {
		case "stmt", "recurse":
			ln(pre + p.callExpr(si, "", ""))
		case "objmethod":
			ln("\tw%d := om%d(hobj)", si, si)
			ln("\thost.Obs(%d, w%d)", si, si)
		case "stmtret":
			ln("\tz%d := sr%d()", si, si)
			ln("\thost.Obs(%d, z%d)", si, si)
		case "andor":
			// the native on the right of && / ||: in half of the sites the left operand decides and the
			// native must not run; the statement after the expression runs either way
			form := []string{"G < 0 && %s > 0 - 100000", "G >= 0 || %s > 0 - 100000", "G >= 0 && %s > 0 - 100000", "G < 0 || %s > 0 - 100000"}[si%4]
			ln(pre+"sc%d := "+form, si, p.callExpr(si, "", ""))
			ln("\thost.Obs(%d, sc%d)", si, si)
		case "vardecl":
			var rs []string
			for i := 0; i < s.Want; i++ {
				rs = append(rs, fmt.Sprintf("d%d_%d", si, i))
			}
			ln(pre+"var %s any = %s", strings.Join(rs, ", "), p.callExpr(si, "", ""))
			ln("\thost.Obs(%d, %s)", si, strings.Join(rs, ", "))
		case "swstmt":
			ln("\tz%d := ss%d(1)", si, si)
			ln("\thost.Obs(%d, z%d)", si, si)
		case "litret":
			ln("\tlr%d()", si)
		case "assign":
			if s.Want == 0 {
				ln(pre + p.callExpr(si, "", ""))
				break
			}
			var rs []string
			for i := 0; i < s.Want; i++ {
				rs = append(rs, fmt.Sprintf("r%d_%d", si, i))
			}
			ln(pre+"%s := %s", strings.Join(rs, ", "), p.callExpr(si, "", ""))
			ln("\thost.Obs(%d, %s)", si, strings.Join(rs, ", "))
		case "expr":
			ln(pre+"x%d := 10 + %s * 3 - 1", si, p.callExpr(si, "", ""))
			ln("\thost.Obs(%d, x%d)", si, si)
		case "nested":
			// as an argument of another native with live operands on both sides
			if n.Rets >= 1 {
				ln(pre+"host.Obs(%d, %s)", si, p.callExpr(si, "", ""))
			} else {
				ln(pre + p.callExpr(si, "", ""))
			}
		case "fnvar":
			ln("\tfn%d := host.N%d", si, s.Native)
			call := strings.Replace(p.callExpr(si, "", ""), fmt.Sprintf("host.N%d(", s.Native), fmt.Sprintf("fn%d(", si), 1)
			if s.Want == 1 {
				ln(pre+"q%d := %s", si, call)
				ln("\thost.Obs(%d, q%d)", si, si)
			} else {
				ln(pre + call)
			}
		case "loop":
			ln("\tfor i%d := 0; i%d < 3; i%d++ {", si, si, si)
			ln("\t" + pre + p.callExpr(si, fmt.Sprintf("i%d", si), ""))
			ln("\t}")
		case "viafn":
			ln(pre+"w%d := pass1(%s, 7)", si, p.callExpr(si, "", ""))
			ln("\thost.Obs(%d, w%d)", si, si)
		case "method":
			ln("\tt%d := &T{A: %d}", si, si)
			ln("\tu%d := t%d.m%d(v%d)", si, si, si, p.firstPool(si))
			ln("\thost.Obs(%d, u%d)", si, si)
		case "reenter":
			ln("\thost.At(%d); G = %d; y%d := host.Re(%d, cb%d, v%d)", si, si, si, si, s.Inner, p.firstPool(s.Inner))
			ln("\thost.Obs(%d, y%d)", si, si)
		case "sort":
			ln("\txs%d := []int{3, 1, 2}", si)
			ln("\tslices.SortFunc(xs%d, func(a, b int) bool { host.At(%d); G = %d; %s; return a < b })", si, si, si, p.callExpr(si, "", ""))
		}
	}
	ln("}")
	return b.String()
}

// firstPool: the pool index passed as x to a method/callback site.
func (p *BPlan) firstPool(si int) int {
	s := p.Sites[si]
	if len(s.Args) > 0 && s.Args[0].Kind == "pool" {
		return s.Args[0].N
	}
	return 3
}

// --- execution -------------------------------------------------------------------

type bKept struct {
	vals []goatlang.Value
	snap []string
}

type bRun struct {
	keptV map[int]bKept // native -> the variadic slice its last invocation received, and what was in it
	p          *BPlan
	h          *core.Host
	res        *core.Result
	lastAt     int
	inv        []int          // invocations per native
	siteInv    map[int]int    // invocations per site
	lastRet    map[int][]BVal // site -> what its last invocation returned
	fired      *BFault        // the fault that fired
	firedAt    int            // site of the fault
	firedG     int            // what the script last stored in G before the fault
	handled    bool
	reDepth    int
	inRecurse  bool
	nativeVals map[int]goatlang.Value
	handledNow bool // a nested error was handled during the current round
	forms      map[string]bool
	andorSeen  map[int]int // andor sites: how often the statement after the expression ran
	gcalls     []string // globalfn: which native ran with which argument, and what the script got back
	shadow     []string // calls received by the natives registered as main.println / main.print
	tryMask    int // tryseq: bit i set = the i-th call of host.Try returns an error object
	trySeen    int
}

const bFaultMsg = "INJECTED-NATIVE-FAULT-7f3a"

var bFaultKinds = []string{"string", "error", "custom", "strings", "stringer"}

type bCustomPanic struct {
	Code int
	Msg  string
}

type bStringer struct{}

func (bStringer) String() string { return bFaultMsg }

func (run *bRun) fail(rule, key, format string, args ...any) {
	run.res.Fail("C19", rule, key, format, args...)
}

// planned results of the n-th invocation of native k
func (run *bRun) rets(k, n int) []BVal {
	nat := run.p.Natives[k]
	out := make([]BVal, nat.Rets)
	for j := range out {
		if nat.Numeric {
			out[j] = BVal{K: "int32", I: int64((k*7+n*3+j)%50 - 10)}
		} else {
			out[j] = bPool[int(core.Mix(run.p.Seed, uint64(k), uint64(n), uint64(j))%uint64(len(bPool)))]
		}
	}
	return out
}

// invoke is the body shared by all native forms.
// keepV plays a native that keeps the slice of variadic arguments it was given.
func (run *bRun) keepV(k int, vargs []goatlang.Value) {
	{
		// a native may keep the slice of variadic arguments it was given: what the previous
		// invocation of this native received must still be there when the next one arrives
		if kept, ok := run.keptV[k]; ok && len(kept.vals) == len(kept.snap) {
			for i := range kept.vals {
				if core.ValueString(kept.vals[i]) != kept.snap[i] {
					run.fail("C19/args", "kept-variadic-slice-overwritten", "native N%d kept the variadic slice of its previous invocation %v; when the next invocation arrived it read %s", k, kept.snap, core.ValuesString(kept.vals))
					break
				}
			}
		}
		snap := make([]string, len(vargs))
		for i, v := range vargs {
			snap[i] = core.ValueString(v)
		}
		run.keptV[k] = bKept{vals: vargs, snap: snap}
	}
}

func (run *bRun) invoke(k int, site int, args []goatlang.Value, vargs []goatlang.Value, variadic bool) []goatlang.Value {
	run.inv[k]++
	nth := run.inv[k]
	nat := run.p.Natives[k]
	run.h.C.Inc(fmt.Sprintf("form_%d", nat.Form))
	run.h.C.Inc(fmt.Sprintf("invocations_native_%d", k))
	if site >= 0 && site < len(run.p.Sites) {
		s := run.p.Sites[site]
		run.siteInv[site]++
		label := s.Ctx
		switch label {
		case "nestedarg":
			label = "nested"
		case "callback":
			label = "reenter"
		}
		run.h.C.Inc("ctx_" + label)
		run.h.H.Add("native", fmt.Sprintf("N%d", k), fmt.Sprintf("site %d args %s %s", site, core.ValuesString(args), core.ValuesString(vargs)))
		if s.Native != k {
			run.fail("C19/args", "wrong-native", "site %d calls native %d but native %d ran", site, s.Native, k)
		} else if s.Ctx != "sort" {
			run.checkArgs(site, s, nat, args, vargs, variadic)
		}
	}
	if site >= 0 && site < len(run.p.Sites) && run.p.Sites[site].Ctx == "recurse" && !run.inRecurse {
		// re-enter the VM from inside this native; the callback calls this same native again;
		// afterwards what this invocation was given must be unchanged
		s := run.p.Sites[site]
		run.inRecurse = true
		run.h.C.Inc("ctx_recurse")
		_, err := run.h.Func(run.h.VM.Get(fmt.Sprintf("main.cb%d", s.Inner)), 1, bPool[run.p.firstPool(s.Inner)].value())
		run.inRecurse = false
		if err != nil {
			panic(err)
		}
		run.siteInv[site]-- // checkArgs counts per call; this is the same invocation
		before := len(run.res.Violations)
		run.siteInv[site]++
		run.checkArgs(site, s, nat, args, vargs, variadic)
		if len(run.res.Violations) > before {
			run.res.Violations[len(run.res.Violations)-1].KeyKind += "-after-reentry"
			run.res.Violations[len(run.res.Violations)-1].Detail = "after the native re-entered the VM and the nested call returned: " + run.res.Violations[len(run.res.Violations)-1].Detail
		}
	}
	for i := range run.p.Faults {
		f := &run.p.Faults[i]
		if f.Native == k && f.Nth == nth && run.fired == nil {
			run.fired, run.firedAt, run.firedG = f, site, run.lastAt
			run.h.C.Inc("fault:native-panic")
			run.h.H.Add("native", "fault", fmt.Sprintf("native %d invocation %d site %d", k, nth, site))
			switch f.Kind {
			case "error":
				panic(errors.New(bFaultMsg))
			case "custom":
				panic(bCustomPanic{Code: 77, Msg: bFaultMsg})
			case "strings":
				panic([]string{bFaultMsg, "second"})
			case "stringer":
				panic(bStringer{})
			}
			panic(bFaultMsg)
		}
	}
	rv := run.rets(k, nth)
	if site >= 0 {
		run.lastRet[site] = rv
	}
	out := make([]goatlang.Value, len(rv))
	for i, v := range rv {
		out[i] = v.value()
	}
	return out
}

func (run *bRun) expectArg(a BArg, site int) (BVal, bool) {
	switch a.Kind {
	case "pool":
		return bPool[a.N], true
	case "lit":
		if a.Lit.K == "untyped" && (a.Lit.I > math.MaxInt32 || a.Lit.I < math.MinInt32) {
			run.h.C.Inc("big_literal_arg")
		}
		return a.Lit, true
	case "loop":
		return BVal{K: "int32", I: int64(run.siteInv[site] - 1)}, true
	case "site":
		if rv := run.lastRet[a.N]; len(rv) > 0 {
			return rv[0], true
		}
	}
	return BVal{}, false
}

func (run *bRun) checkArgs(site int, s BSite, nat BNative, args, vargs []goatlang.Value, variadic bool) {
	var want []BVal
	if s.Ctx == "andor" && site%4 < 2 {
		run.fail("C19/args", "ran-despite-short-circuit", "site %d: the left operand of %s decides the result, but the native on the right was invoked", site, []string{"&&", "||"}[site%2])
	}
	for _, a := range s.Args {
		w, ok := run.expectArg(a, site)
		if !ok {
			return
		}
		want = append(want, w)
	}
	if s.Spread {
		want = append(want, bSpread...)
		run.h.C.Inc("spread")
	}
	got := append(append([]goatlang.Value{}, args...), vargs...)
	if len(got) != len(want) {
		run.fail("C19/args", fmt.Sprintf("count-form%d", nat.Form), "native N%d (form %d, argc %d) at site %d (%s) received %d arguments %s, the script passed %d: %v", s.Native, nat.Form, nat.Argc, site, s.Ctx, len(got), core.ValuesString(got), len(want), want)
		return
	}
	if variadic && len(args) != nat.Argc-2 {
		run.fail("C19/args", "variadic-split", "variadic native N%d (argc %d) at site %d got %d fixed arguments", s.Native, nat.Argc, site, len(args)+1)
	}
	for i := range want {
		if !want[i].matches(got[i]) {
			run.fail("C19/args", fmt.Sprintf("value-form%d-%s", nat.Form, s.Ctx), "native N%d (form %d) at site %d (%s): argument %d arrived as %s, the script passed %s; all received %s", s.Native, nat.Form, site, s.Ctx, i+1, describe(got[i]), want[i], core.ValuesString(got))
			return
		}
	}
}

var bSpread = []BVal{{K: "int32", I: 7}, {K: "int32", I: 8}, {K: "int32", I: 9}}

func (run *bRun) natives(vm *goatlang.VM) {
	vm.Set("host.At", goatlang.NewFunc(1, 0, func(v *goatlang.VM, a []goatlang.Value) { run.lastAt = a[0].Int() }))
	vm.Set("host.Give", goatlang.NewFunc(1, 1, func(v *goatlang.VM, a []goatlang.Value) goatlang.Value {
		i := a[0].Int()
		if i < 0 {
			return BVal{K: "slice", Sl: bSpread}.value()
		}
		return bPool[i].value()
	}))
	for _, name := range []string{"A", "B"} {
		name := name
		vm.Set("host.G"+name, goatlang.NewFunc(1, 1, func(v *goatlang.VM, a []goatlang.Value) goatlang.Value {
			run.gcalls = append(run.gcalls, fmt.Sprintf("%s%d", name, a[0].Int()))
			return goatlang.Int(map[string]int{"A": 100, "B": 200}[name] + a[0].Int())
		}))
	}
	vm.Set("host.GObs", goatlang.NewFunc(2, 0, func(v *goatlang.VM, a []goatlang.Value) {
		run.gcalls = append(run.gcalls, fmt.Sprintf("obs%d=%d", a[0].Int(), a[1].Int()))
	}))
	for _, name := range []string{"println", "print"} {
		name := name
		vm.Set("main."+name, goatlang.NewFunc(1, 0, func(v *goatlang.VM, a []goatlang.Value, va ...goatlang.Value) []goatlang.Value {
			parts := []string{name}
			for _, x := range va {
				parts = append(parts, describe(x))
			}
			run.shadow = append(run.shadow, strings.Join(parts, " "))
			return nil
		}))
	}
	vm.Set("host.Try", goatlang.NewFunc(1, 2, func(v *goatlang.VM, a []goatlang.Value) []goatlang.Value {
		i := a[0].Int()
		if run.tryMask>>uint(i)&1 == 1 {
			if i%2 == 0 {
				return []goatlang.Value{goatlang.Int(i), goatlang.Error(fmt.Errorf("e%d", i))}
			}
			return []goatlang.Value{goatlang.Int(i), goatlang.Wrap(&bObj{run: run})}
		}
		return []goatlang.Value{goatlang.Int(i), goatlang.Nil()}
	}))
	vm.Set("host.TryObs", goatlang.NewFunc(3, 0, func(v *goatlang.VM, a []goatlang.Value) {
		i := a[0].Int()
		run.trySeen++
		wantNil := run.tryMask>>uint(i)&1 == 0
		if a[1].Int() != i || a[2].Bool() != wantNil {
			run.fail("C19/rets", "nil-after-object", "call %d of the (value, err) native returned (%d, %s); the script sees value %s and err == nil is %v (error objects so far at calls %b)", i, i, map[bool]string{true: "nil", false: "an error object"}[wantNil], describe(a[1]), a[2].Bool(), run.tryMask&(1<<uint(i+1)-1))
		}
	}))
	vm.Set("host.Obs", goatlang.NewFunc(2, 0, func(v *goatlang.VM, a []goatlang.Value, va ...goatlang.Value) []goatlang.Value {
		run.obs(a[0].Int(), va)
		return nil
	}))
	vm.Set("host.Re", goatlang.NewFunc(3, 1, func(v *goatlang.VM, a []goatlang.Value) goatlang.Value {
		site := a[0].Int()
		run.h.C.Inc("ctx_reenter")
		run.reDepth++
		rets, err := run.h.Func(a[1], 1, a[2])
		run.reDepth--
		if err != nil {
			if site >= 0 && site < len(run.p.Sites) && run.p.Sites[site].Handled {
				run.handled = true
				run.handledNow = true
				run.h.C.Inc("fault_handled")
				return goatlang.String("handled")
			}
			panic(err)
		}
		return rets[0]
	}))
	run.nativeVals = map[int]goatlang.Value{}
	vm.Set("host.Obj", goatlang.NewFunc(0, 1, func(v *goatlang.VM) goatlang.Value { return goatlang.Wrap(&bObj{run: run}) }))
	defer func() {
		for k := range run.p.Natives {
			run.nativeVals[k] = vm.Get(fmt.Sprintf("host.N%d", k))
		}
	}()
	for k, n := range run.p.Natives {
		k, n := k, n
		name := fmt.Sprintf("host.N%d", k)
		siteOf := func(a []goatlang.Value) (int, []goatlang.Value) {
			if len(a) == 0 {
				return -1, a
			}
			return a[0].Int(), a[1:]
		}
		switch n.Form {
		case 1:
			vm.Set(name, goatlang.NewFunc(0, 0, func(v *goatlang.VM) { run.invoke(k, run.lastAt, nil, nil, false) }))
		case 2:
			vm.Set(name, goatlang.NewFunc(0, 1, func(v *goatlang.VM) goatlang.Value { return run.invoke(k, run.lastAt, nil, nil, false)[0] }))
		case 3:
			vm.Set(name, goatlang.NewFunc(n.Argc, 0, func(v *goatlang.VM, a []goatlang.Value) {
				s, rest := siteOf(a)
				run.invoke(k, s, rest, nil, false)
			}))
		case 4:
			vm.Set(name, goatlang.NewFunc(n.Argc, 1, func(v *goatlang.VM, a []goatlang.Value) goatlang.Value {
				s, rest := siteOf(a)
				return run.invoke(k, s, rest, nil, false)[0]
			}))
		case 5:
			vm.Set(name, goatlang.NewFunc(n.Argc, n.Rets, func(v *goatlang.VM, a []goatlang.Value) []goatlang.Value {
				s, rest := siteOf(a)
				return run.invoke(k, s, rest, nil, false)
			}))
		case 6:
			vm.Set(name, goatlang.NewFunc(n.Argc, n.Rets, func(v *goatlang.VM, a []goatlang.Value, va ...goatlang.Value) []goatlang.Value {
				s, rest := siteOf(a)
				cp := append([]goatlang.Value{}, va...)
				run.keepV(k, va) // the very slice the adapter handed over, not the copy
				return run.invoke(k, s, rest, cp, true)
			}))
		}
	}
}

// bObj is a Go object handed to scripts (Wrap): its attributes M<k> are the natives N<k>.
type bObj struct {
	goatlang.Object
	run *bRun
}

func (o *bObj) GetAttr(k string) goatlang.Value {
	var n int
	if _, err := fmt.Sscanf(k, "M%d", &n); err == nil {
		if v, ok := o.run.nativeVals[n]; ok {
			return v
		}
	}
	return goatlang.Nil()
}

// obs: the script echoes what a call site gave it.
func (run *bRun) obs(site int, got []goatlang.Value) {
	run.h.H.Add("script", "obs", fmt.Sprintf("site %d %s", site, core.ValuesString(got)))
	if site < 0 || site >= len(run.p.Sites) {
		return
	}
	s := run.p.Sites[site]
	rv := run.lastRet[site]
	var want []BVal
	switch s.Ctx {
	case "assign":
		if s.Want <= len(rv) {
			want = rv[:s.Want]
		}
	case "expr":
		if len(rv) > 0 {
			want = []BVal{{K: "int32", I: 10 + rv[0].I*3 - 1}}
		}
	case "stmtret", "swstmt":
		want = []BVal{{K: "int32", I: 12345}}
	case "andor":
		run.andorSeen[site]++
		want = []BVal{{K: "bool", I: int64([]int{0, 1, 1, 1}[site%4])}}
	case "litret", "vardecl":
		if s.Want <= len(rv) && s.Want > 0 {
			want = rv[:s.Want]
		}
	case "nested", "fnvar", "viafn", "method", "objmethod":
		if len(rv) > 0 {
			want = rv[:1]
		}
	case "reenter":
		if run.handledNow && run.firedAt == s.Inner {
			want = []BVal{{K: "string", S: "handled"}}
		} else if r2 := run.lastRet[s.Inner]; len(r2) > 0 {
			want = r2[:1]
		}
	}
	if want == nil {
		return
	}
	if len(got) != len(want) {
		run.fail("C19/rets", "count", "site %d (%s) received %d results %s from native N%d, it returned %v", site, s.Ctx, len(got), core.ValuesString(got), s.Native, rv)
		return
	}
	for i := range want {
		if !want[i].matches(got[i]) {
			run.fail("C19/rets", fmt.Sprintf("value-form%d-%s", run.p.Natives[s.Native].Form, s.Ctx), "site %d (%s): result %d of native N%d reached the script as %s, the native returned %s (all: %v)", site, s.Ctx, i+1, s.Native, describe(got[i]), want[i], rv)
			return
		}
	}
}

func (boundary) Execute(plan any, keep bool) *core.Result {
	p := plan.(*BPlan)
	res := &core.Result{Counters: core.Counters{}}
	hist := core.NewHistory(keep)
	src := p.render()
	disk := core.NewSimDisk([]core.DiskFile{{Path: "main/main.go", Data: []byte(src)}}, hist)
	disk.Mute = true
	run := &bRun{p: p, res: res, lastAt: -1, inv: make([]int, len(p.Natives)), siteInv: map[int]int{}, lastRet: map[int][]BVal{}, andorSeen: map[int]int{}, keptV: map[int]bKept{}}
	run.h = core.NewHost(p.Seed, disk, hist, run.natives)
	run.h.Budget = core.MaxBudget
	goatlang.VerifOptimizeOff = p.OptimizeOff
	defer func() { goatlang.VerifOptimizeOff = false; goatlang.VerifSetBudget(-1) }()
	finish := func() *core.Result {
		res.Counters.Merge(run.h.C)
		for i, esc := range run.h.Escapes {
			res.Fail("C19", "C19/error", "panic", "an entry point panicked instead of returning an error (%s) [raised at %s]", esc, run.h.EscapeSites[i])
		}
		res.Nontrivial = run.fired != nil || run.h.MaxDepth > 1
		res.Hash = hist.Hash()
		res.History = hist
		res.Steps = 2 + len(p.HostCalls)
		return res
	}
	if err := run.h.Load("main"); err != nil {
		res.Fail("HARNESS", "generator", "script", "the generated script does not load: %v\n%s", err, src)
		return finish()
	}
	rounds := p.Rounds
	if rounds < 1 {
		rounds = 1
	}
	out := "ok"
	for round := 1; round <= rounds; round++ {
		run.siteInv = map[int]int{}
		run.handledNow = false
		firedBefore := run.fired != nil
		if round > 1 {
			run.h.C.Inc(fmt.Sprintf("round_%d", round))
		}
		_, err := run.h.Call("main.work", 0)
		out = run.judgeRound(err, firedBefore)
		if err == nil && run.fired == nil && run.res.OK() {
			// a round without any fault ran every statement of work(): the statement that follows each
			// && / || expression has reported once more
			for si, st := range p.Sites {
				if st.Ctx == "andor" && !st.Skip && run.andorSeen[si] != round {
					run.fail("C19/rets", "statement-after-short-circuit-skipped", "site %d: the statement after `sc := <left> %s N%d(...) > ...` ran %d times in %d rounds of work()", si, []string{"&&", "||", "&&", "||"}[si%4], st.Native, run.andorSeen[si], round)
					break
				}
			}
		}
	}
	for i := range p.HostCalls {
		run.hostCall(&p.HostCalls[i])
	}
	return run.wrapUp(p, out, finish)
}

func (run *bRun) wrapUp(p *BPlan, out string, finish func() *core.Result) *core.Result {
	run.res.Abstract = fmt.Sprintf("%s|sites=%d|depth=%d|rounds=%d", out, len(p.Sites), run.h.MaxDepth, p.Rounds)
	var ctxs []string
	for _, k := range run.h.C.Keys() {
		if strings.HasPrefix(k, "ctx_") || strings.HasPrefix(k, "form_") {
			ctxs = append(ctxs, k)
		}
	}
	run.res.Abstract += "|" + strings.Join(ctxs, ",")
	return finish()
}

// judgeRound applies C19/error and C19/after to one call of work().
func (run *bRun) judgeRound(err error, firedBefore bool) string {
	out := "ok"
	firedNow := run.fired != nil && !firedBefore
	switch {
	case firedNow && !run.handled:
		out = "propagated"
		run.h.C.Inc("fault_propagated")
		if err == nil {
			run.fail("C19/error", "swallowed", "native N%d panicked at site %d (%s) and nothing handled it, but the outer Call returned no error", run.fired.Native, run.firedAt, run.siteCtx(run.firedAt))
		} else if !strings.Contains(err.Error(), bFaultMsg) {
			run.fail("C19/error", "message-lost", "the outer Call failed with %q, which does not carry the native's error %q", firstLine(err.Error()), bFaultMsg)
		}
		// C19/after: state written before the fault instant is still there, and the VM still works
		g, gerr := run.h.Call("main.getG", 1)
		if gerr != nil || len(g) != 1 {
			run.fail("C19/after", "vm-unusable", "after the failed call, Call(getG) gives %v, %v", core.ValuesString(g), gerr)
		} else if run.firedG >= 0 && g[0].Int() != run.firedG {
			run.fail("C19/after", "state-lost", "the script stored G = %d just before the failing native ran, after the failed call G is %d", run.firedG, g[0].Int())
		}
	case firedNow && run.handled:
		out = "handled"
		if err != nil {
			run.fail("C19/error", "handled-but-failed", "an intermediate native handled the nested error, but the outer Call still failed: %s", firstLine(err.Error()))
		}
	default:
		if err != nil && !core.IsBudget(err) {
			run.fail("C19/error", "spurious", "no fault was injected but work() failed: %s", firstLine(err.Error()))
		}
	}
	return out
}

func (run *bRun) siteCtx(si int) string {
	if si >= 0 && si < len(run.p.Sites) {
		return run.p.Sites[si].Ctx
	}
	return "?"
}

// hostCall: Call/Func of script identity functions with host-built values.
func (run *bRun) hostCall(hc *BHostCall) {
	if hc.Fn == "swap" {
		run.hostSwap(hc)
		return
	}
	if hc.Fn == "redefine" {
		// a function name is defined again by a later Eval with another shape (variadic <-> fixed,
		// native <-> script); Call must invoke what is defined NOW, with the given parameters
		run.h.C.Inc("hostcall_redefine")
		if len(hc.Params) < 3 {
			return
		}
		p0, p1, p2 := bPool[hc.Params[0]], bPool[hc.Params[1]], bPool[hc.Params[2]]
		defs := []struct {
			src  string
			n    int
			want func(r []goatlang.Value) bool
		}{
			{"func rv(a any, rest ...any) (any, int) { return a, len(rest) }", 3, func(r []goatlang.Value) bool { return p0.matches(r[0]) && r[1].Int() == 2 }},
			{"func rv(a any, b any) (any, int) { return b, 70 }", 2, func(r []goatlang.Value) bool { return p1.matches(r[0]) && r[1].Int() == 70 }},
			{"func rv(rest ...any) (any, int) { return rest[len(rest)-1], len(rest) }", 3, func(r []goatlang.Value) bool { return p2.matches(r[0]) && r[1].Int() == 3 }},
			{"func rv(a any, b any, c any) (any, int) { return c, 71 }", 3, func(r []goatlang.Value) bool { return p2.matches(r[0]) && r[1].Int() == 71 }},
		}
		order := []int{0, 1, 2, 3}
		if hc.A%2 == 1 {
			order = []int{1, 0, 3, 2}
		}
		if hc.A%3 == 0 {
			// start from a native registered under that name
			run.h.VM.Set("main.rv", goatlang.NewFunc(1, 2, func(v *goatlang.VM, a []goatlang.Value) []goatlang.Value {
				return []goatlang.Value{a[0], goatlang.Int(99)}
			}))
		}
		for _, di := range order {
			d := defs[di]
			if _, err := run.h.Eval("stdin", d.src); err != nil {
				run.fail("C19/count", "redefine-failed", "Eval(%q) failed: %v", d.src, err)
				return
			}
			ps := []goatlang.Value{p0.value(), p1.value(), p2.value()}[:d.n]
			rets, err := run.h.Call("main.rv", 2, ps...)
			if err != nil || len(rets) != 2 || !d.want(rets) {
				run.fail("C19/count", "redefined-shape", "after Eval(%q), Call(main.rv) with %d parameters (%s, %s, %s)[:%d] returned %s, %v", d.src, d.n, p0, p1, p2, d.n, core.ValuesString(rets), err)
				return
			}
		}
		return
	}
	if hc.Fn == "consts" {
		// script functions whose results are constants of several declared types: each result
		// arrives with its own declared type and the value written
		run.h.C.Inc("hostcall_consts")
		i := hc.B % len(bConsts)
		k := bConsts[i]
		name := fmt.Sprintf("main.k%d", i)
		var rets []goatlang.Value
		var err error
		if hc.Func {
			rets, err = run.h.Func(run.h.VM.Get(name), len(k.want))
		} else {
			rets, err = run.h.Call(name, len(k.want))
		}
		if err != nil || len(rets) != len(k.want) {
			run.fail("C19/count", "consts-failed", "%s declared (%s) asked for %d results: got %d, %v", name, k.types, len(k.want), len(rets), err)
			return
		}
		for j := range rets {
			if !k.want[j].matches(rets[j]) {
				run.fail("C19/roundtrip", "const-result", "func %s() (%s) { %s }: result %d reached the host as %s, want %s", name, k.types, k.body, j+1, describe(rets[j]), k.want[j])
				return
			}
		}
		return
	}
	if hc.Fn == "structs" {
		run.hostStructs(hc)
		return
	}
	if hc.Fn == "loaderstub" {
		run.h.C.Inc("hostcall_loaderstub")
		rets, err := run.h.Call("main.stubcheck", 3)
		src, _ := run.h.Disk.Content("main/main.go")
		if err != nil || len(rets) != 3 || rets[0].Int() != len(src) || !rets[1].Bool() || rets[2].Int() != 2 {
			run.fail("C19/args", "loader-registered-native-replaced", "the host registered os.ReadFile and os.Args through WithLoaders (serving the simulated tree: main/main.go has %d bytes, two arguments); the script got %s, %v", len(src), core.ValuesString(rets), err)
		}
		return
	}
	if hc.Fn == "globalfn" {
		run.h.C.Inc("hostcall_globalfn")
		run.gcalls = nil
		want := ""
		for i := 0; i < hc.B; i++ {
			if _, err := run.h.Call("main.ghseq", 0); err != nil {
				run.fail("C19/count", "globalfn-failed", "Call(main.ghseq) failed: %v", firstLine(err.Error()))
				return
			}
			want += "A1 obs1=101 B2 obs2=202 A3 obs3=103 "
		}
		if got := strings.Join(run.gcalls, " ") + " "; got != want {
			run.fail("C19/args", "reassigned-global-function", "var gh = host.GA; ghseq calls gh(1), assigns gh = host.GB, calls gh(2), assigns gh = host.GA, calls gh(3), %d times over: the natives saw and the script got [%s], want [%s]", hc.B, strings.TrimSpace(got), strings.TrimSpace(want))
		}
		return
	}
	if hc.Fn == "ctors" {
		run.hostCtors(hc)
		return
	}
	if hc.Fn == "shadow" {
		// natives the host registered in package main under names that builtins also have: a bare
		// call of that name in package main reaches the host's native, with the arguments passed
		run.h.C.Inc("hostcall_shadow")
		run.shadow = nil
		out0 := len(run.h.Stdout.String())
		if _, err := run.h.Call("main.shadowed", 0); err != nil {
			run.fail("C19/count", "shadow-failed", "Call(main.shadowed) failed: %v", firstLine(err.Error()))
			return
		}
		want := []string{"println 23:7 \"x\"", "print \"y\"", "println"}
		if got := strings.Join(run.shadow, " | "); got != strings.Join(want, " | ") || len(run.h.Stdout.String()) != out0 {
			run.fail("C19/args", "shadowed-builtin-name", "natives registered as main.println / main.print: the script called println(7, \"x\"); print(\"y\"); println() and the host's natives received [%s] (%d bytes went to stdout instead)", got, len(run.h.Stdout.String())-out0)
		}
		return
	}
	if hc.Fn == "tryseq" {
		run.h.C.Inc("hostcall_tryseq")
		run.tryMask, run.trySeen = hc.B, 0
		if _, err := run.h.Call("main.tryseq", 0); err != nil {
			run.fail("C19/count", "tryseq-failed", "Call(main.tryseq) failed: %v", firstLine(err.Error()))
		} else if run.trySeen != 14 && run.res.OK() {
			run.fail("C19/rets", "tryseq-incomplete", "main.tryseq reported %d of 14 calls", run.trySeen)
		}
		return
	}
	if hc.Fn == "reuse" {
		// the host keeps one parameter slice (with spare capacity, as append leaves it) and
		// calls twice with it: both calls must see the parameters the host put there
		name := fmt.Sprintf("main.id%d_%d", hc.A, hc.A)
		ps := make([]goatlang.Value, 0, hc.A+3)
		for _, pi := range hc.Params {
			ps = append(ps, bPool[pi].value())
		}
		run.h.C.Inc("hostcall_reuse")
		for round := 1; round <= 2; round++ {
			rets, err := run.h.Call(name, hc.A, ps...)
			if err != nil || len(rets) != hc.A {
				run.fail("C19/count", "reuse-failed", "Call(%s) failed: %v", name, err)
				return
			}
			got := append([]goatlang.Value{}, rets...)
			for i := range got {
				if !bPool[hc.Params[i]].matches(got[i]) {
					run.fail("C19/roundtrip", "params-clobbered", "call %d of %s with the same parameter slice: parameter %d built as %s came back as %s (the first call left its results in the caller's slice)", round, name, i+1, bPool[hc.Params[i]], describe(got[i]))
					return
				}
			}
			// make the returned values differ from the parameters for the next round: call a function
			// that returns something else through the same slice
			if _, err := run.h.Call("main.getG", 1, ps[:0]...); err != nil {
				return
			}
		}
		for i := range ps {
			if !bPool[hc.Params[i]].matches(ps[i]) {
				run.fail("C19/roundtrip", "params-clobbered", "after Call(%s, params...) and Call(getG, params[:0]...) the host's parameter slice holds %s at index %d, the host put %s there", name, describe(ps[i]), i, bPool[hc.Params[i]])
				return
			}
		}
		return
	}
	if hc.Fn == "variadic" {
		// a variadic script function called from the host with 1..6 parameters
		var ps []goatlang.Value
		for _, pi := range hc.Params {
			ps = append(ps, bPool[pi].value())
		}
		run.h.C.Inc("hostcall_variadic")
		rets, err := run.h.Call("main.vid", 3, ps...)
		if err != nil || len(rets) != 3 {
			run.fail("C19/count", "variadic-failed", "Call(main.vid) with %d parameters failed: %v (%d results)", len(ps), err, len(rets))
			return
		}
		n := len(hc.Params) - 1
		last := BVal{K: "nil"}
		if n > 0 {
			last = bPool[hc.Params[n]]
		}
		if !bPool[hc.Params[0]].matches(rets[0]) || rets[1].Int() != n || !last.matches(rets[2]) {
			run.fail("C19/count", "variadic-values", "main.vid(a, rest...) called with %d parameters returned %s; want the first parameter %s, %d variadic ones, the last of them %s", len(ps), core.ValuesString(rets), bPool[hc.Params[0]], n, last)
		}
		return
	}
	name := fmt.Sprintf("main.id%d_%d", hc.A, hc.B)
	if hc.Fn == "typed" {
		name = "main.typed"
	}
	var params []goatlang.Value
	var want []BVal
	if hc.Fn == "typed" {
		want = []BVal{{K: "int32", I: -77}, {K: "string", S: "ty"}, {K: "float64", F: 0.125}, {K: "bool", I: 1}, {K: "uint8", I: 250}}
		for _, w := range want {
			params = append(params, w.value())
		}
	} else {
		for _, pi := range hc.Params {
			params = append(params, bPool[pi].value())
			want = append(want, bPool[pi])
		}
		if len(want) > hc.B {
			want = want[:hc.B]
		}
	}
	var rets []goatlang.Value
	var err error
	if hc.Func {
		rets, err = run.h.Func(run.h.VM.Get(name), hc.XRets, params...)
	} else {
		rets, err = run.h.Call(name, hc.XRets, params...)
	}
	declared := hc.B
	switch {
	case hc.XRets > declared:
		run.h.C.Inc("hostcall_too_many")
		if err == nil {
			run.fail("C19/count", "too-many", "%s declares %d results; asking for %d returned %s and no error", name, declared, hc.XRets, core.ValuesString(rets))
		}
	case err != nil:
		run.fail("C19/count", "failed", "%s with %d parameters asking for %d of %d results failed: %s", name, len(params), hc.XRets, declared, firstLine(err.Error()))
	default:
		run.h.C.Inc("hostcall_ok")
		if len(rets) != hc.XRets {
			run.fail("C19/count", "length", "%s asked for %d results, got %d", name, hc.XRets, len(rets))
			return
		}
		if hc.XRets == declared {
			for i := range rets {
				if !want[i].matches(rets[i]) {
					run.fail("C19/roundtrip", want[i].K, "%s: parameter %d built as %s came back as %s", name, i+1, want[i], describe(rets[i]))
					return
				}
			}
		}
	}
}

// bConsts: script functions returning constants, with the values and dynamic types the host must see.
var bConsts = []struct {
	types, body string
	want        []BVal
}{
	{"uint8, int", "return 1, 300", []BVal{{K: "uint8", I: 1}, {K: "int32", I: 300}}},
	{"int, float64", "return 1, 3000000000", []BVal{{K: "int32", I: 1}, {K: "float64", F: 3e9}}},
	{"float64, int", "return 1, 7", []BVal{{K: "float64", F: 1}, {K: "int32", I: 7}}},
	{"int8, uint32, string, float64", "return -3, 4000000000, \"s\", 2", []BVal{{K: "int8", I: -3}, {K: "uint32", I: 4000000000}, {K: "string", S: "s"}, {K: "float64", F: 2}}},
	{"byte, float64, int, bool", "x := 9; return 200, 0.5, x, true", []BVal{{K: "uint8", I: 200}, {K: "float64", F: 0.5}, {K: "int32", I: 9}, {K: "bool", I: 1}}},
	{"string, int8, int", "return \"a\", 100, 100000", []BVal{{K: "string", S: "a"}, {K: "int8", I: 100}, {K: "int32", I: 100000}}},
	{"uint32, uint8, float64", "return 250, 250, 250", []BVal{{K: "uint32", I: 250}, {K: "uint8", I: 250}, {K: "float64", F: 250}}},
}

// hostCtors: every scalar constructor with the boundary values of its domain, read back through
// every accessor that can hold the value, directly and after a trip through a script function.
func (run *bRun) hostCtors(hc *BHostCall) {
	run.h.C.Inc("hostcall_ctors")
	type tc struct {
		name string
		v    goatlang.Value
		t    goatlang.Type
		f    float64
	}
	var cases []tc
	for _, x := range []int{0, 1, -1, 41, math.MaxInt32, math.MinInt32} {
		cases = append(cases, tc{fmt.Sprintf("Int(%d)", x), goatlang.Int(x), goatlang.TypeInt32, float64(x)}, tc{fmt.Sprintf("Int32(%d)", x), goatlang.Int32(int32(x)), goatlang.TypeInt32, float64(x)})
	}
	for _, x := range []uint{0, 1, math.MaxInt32, math.MaxInt32 + 1, 3000000000, math.MaxUint32} {
		cases = append(cases, tc{fmt.Sprintf("Uint(%d)", x), goatlang.Uint(x), goatlang.TypeUint32, float64(x)}, tc{fmt.Sprintf("Uint32(%d)", x), goatlang.Uint32(uint32(x)), goatlang.TypeUint32, float64(x)})
	}
	for _, x := range []int8{-128, -1, 0, 127} {
		cases = append(cases, tc{fmt.Sprintf("Int8(%d)", x), goatlang.Int8(x), goatlang.TypeInt8, float64(x)})
	}
	for _, x := range []byte{0, 1, 200, 255} {
		cases = append(cases, tc{fmt.Sprintf("Byte(%d)", x), goatlang.Byte(x), goatlang.TypeUint8, float64(x)}, tc{fmt.Sprintf("Uint8(%d)", x), goatlang.Uint8(x), goatlang.TypeUint8, float64(x)})
	}
	check := func(c tc, v goatlang.Value, how string) bool {
		ok := v.Type() == c.t && v.Float64() == c.f
		if c.f >= math.MinInt32 && c.f <= math.MaxInt32 {
			ok = ok && v.Int() == int(c.f) && v.Int32() == int32(c.f)
		}
		if c.f >= 0 {
			ok = ok && v.Uint() == uint(c.f) && v.Uint32() == uint32(c.f)
		}
		if c.f >= -128 && c.f <= 127 {
			ok = ok && v.Int8() == int8(c.f)
		}
		if c.f >= 0 && c.f <= 255 {
			ok = ok && v.Byte() == byte(c.f) && v.Uint8() == uint8(c.f)
		}
		if !ok {
			run.fail("C19/roundtrip", "constructor", "%s %s reads back as type %#x, Float64 %v, Int %d, Uint %d, Uint32 %d, Int8 %d, Byte %d; built from %v", c.name, how, int(v.Type()), v.Float64(), v.Int(), v.Uint(), v.Uint32(), v.Int8(), v.Byte(), c.f)
		}
		return ok
	}
	for _, c := range cases {
		if !check(c, c.v, "") {
			return
		}
		var rets []goatlang.Value
		var err error
		if hc.Func {
			rets, err = run.h.Func(run.h.VM.Get("main.id1_1"), 1, c.v)
		} else {
			rets, err = run.h.Call("main.id1_1", 1, c.v)
		}
		if err != nil || len(rets) != 1 {
			run.fail("C19/count", "ctors-call-failed", "id1_1(%s) failed: %v", c.name, err)
			return
		}
		if !check(c, rets[0], "after a trip through the script function id1_1") {
			return
		}
	}
	for _, f := range []float64{0, math.Copysign(0, -1), 1.5, -2.25e10, math.MaxFloat64, math.SmallestNonzeroFloat64, math.Inf(-1)} {
		if v := goatlang.Float64(f); v.Type() != goatlang.TypeFloat64 || math.Float64bits(v.Float64()) != math.Float64bits(f) {
			run.fail("C19/roundtrip", "constructor", "Float64(%v) reads back as %v", f, v.Float64())
			return
		}
	}
	for _, b := range []bool{true, false} {
		if v := goatlang.Bool(b); v.Type() != goatlang.TypeBool || v.Bool() != b {
			run.fail("C19/roundtrip", "constructor", "Bool(%v) reads back as %v", b, v.Bool())
			return
		}
	}
	for _, st := range []string{"", "a", "h\u00e9llo", "\xff\xfe", "a\x00b"} {
		if v := goatlang.String(st); v.Type() != goatlang.TypeString || v.String() != st {
			run.fail("C19/roundtrip", "constructor", "String(%q) reads back as %q", st, v.String())
			return
		}
	}
	if !goatlang.Nil().IsNil() {
		run.fail("C19/roundtrip", "constructor", "Nil().IsNil() is false")
	}
}

// hostStructs: instances built with NewStruct (with and without initial data), written through
// SetAttr and by script functions, next to instances the script builds itself: every instance
// keeps its own fields.
func (run *bRun) hostStructs(hc *BHostCall) {
	run.h.C.Inc("hostcall_structs")
	r := core.NewPRNG(core.Mix(uint64(hc.B), 0x57))
	base := run.h.VM.Get("main.T2")
	type inst struct {
		v goatlang.Value
		a int
		b string
		c float64
	}
	var insts []*inst
	n := 3 + r.Intn(12)
	for step := 0; step < n; step++ {
		what := ""
		k := r.Intn(9)
		if len(insts) == 0 && k >= 3 && k != 7 {
			k = 0
		}
		switch {
		case k < 3:
			in := &inst{}
			var data []goatlang.Value
			if r.Chance(1, 3) {
				in.a = 1 + r.Intn(1000)
				data = append(data, goatlang.String("A"), goatlang.Int(in.a))
				if r.Bool() {
					in.b = fmt.Sprintf("s%d", r.Intn(100))
					data = append(data, goatlang.String("B"), goatlang.String(in.b))
				}
			}
			in.v = goatlang.NewStruct(base, data)
			insts = append(insts, in)
			what = fmt.Sprintf("NewStruct(T2, %d initial values)", len(data)/2)
		case k < 5:
			in := insts[r.Intn(len(insts))]
			switch r.Intn(3) {
			case 0:
				in.a = 1 + r.Intn(1000)
				in.v.SetAttr("A", goatlang.Int(in.a))
			case 1:
				in.b = fmt.Sprintf("s%d", r.Intn(100))
				in.v.SetAttr("B", goatlang.String(in.b))
			default:
				in.c = float64(r.Intn(100)) + 0.5
				in.v.SetAttr("C", goatlang.Float64(in.c))
			}
			what = "SetAttr"
		case k < 6:
			in := insts[r.Intn(len(insts))]
			x := 1 + r.Intn(1000)
			if _, err := run.h.Call("main.setA", 0, in.v, goatlang.Int(x)); err != nil {
				run.fail("C19/count", "struct-call-failed", "Call(main.setA, instance, %d) failed: %v", x, err)
				return
			}
			in.a = x
			what = "a script function assigning t.A"
		case k < 7:
			in := insts[r.Intn(len(insts))]
			rets, err := run.h.Call("main.sumT2", 1, in.v)
			if err != nil || len(rets) != 1 || rets[0].Int() != in.a+len(in.b) {
				run.fail("C19/roundtrip", "struct-param", "a script function given a host-built instance with A=%d B=%q computed t.A+len(t.B) = %s, %v", in.a, in.b, core.ValuesString(rets), err)
				return
			}
			what = "a script function reading the instance"
		default:
			in := &inst{}
			var rets []goatlang.Value
			var err error
			if r.Bool() {
				rets, err = run.h.Call("main.mkT2", 1)
			} else {
				in.b = fmt.Sprintf("lit%d", r.Intn(100))
				rets, err = run.h.Call("main.mkT2B", 1, goatlang.String(in.b))
			}
			if err != nil || len(rets) != 1 {
				run.fail("C19/count", "struct-call-failed", "Call(main.mkT2) failed: %v", err)
				return
			}
			in.v = rets[0]
			insts = append(insts, in)
			what = "a script literal &T2{...}"
		}
		for i, in := range insts {
			a, b, c := in.v.GetAttr("A"), in.v.GetAttr("B"), in.v.GetAttr("C")
			if a.Type() != goatlang.TypeInt32 || a.Int() != in.a || b.Type() != goatlang.TypeString || b.String() != in.b || c.Float64() != in.c {
				run.fail("C19/roundtrip", "struct-fields", "after step %d (%s) instance %d of %d reads back A=%s B=%s C=%s; the values last written to that instance are A=%d B=%q C=%v", step+1, what, i+1, len(insts), describe(a), describe(b), describe(c), in.a, in.b, in.c)
				return
			}
		}
	}
}

// hostSwap: a function value fetched with Get keeps meaning the function it was fetched as,
// also after the host registers something else under that name with Set.
func (run *bRun) hostSwap(hc *BHostCall) {
	name := fmt.Sprintf("main.id%d_%d", hc.A, hc.A)
	if hc.A > 4 {
		name = "main.id4_4"
		hc = &BHostCall{Fn: "swap", A: 4, Params: hc.Params[:4]}
	}
	run.h.C.Inc("hostcall_swap")
	old := run.h.VM.Get(name)
	run.h.VM.Set(name, goatlang.NewFunc(hc.A, hc.A, func(v *goatlang.VM, a []goatlang.Value) []goatlang.Value {
		out := make([]goatlang.Value, hc.A)
		for i := range out {
			out[i] = goatlang.String("replacement")
		}
		return out
	}))
	// a fresh parameter slice per call: Func builds its stack with append(params, fn), so a
	// slice with spare capacity is written to (results land in the caller's backing array)
	mk := func() []goatlang.Value {
		ps := make([]goatlang.Value, 0, len(hc.Params))
		for _, pi := range hc.Params {
			ps = append(ps, bPool[pi].value())
		}
		return ps
	}
	r1, err1 := run.h.Func(old, hc.A, mk()...)
	r2, err2 := run.h.Call(name, hc.A, mk()...)
	run.h.VM.Set(name, old)
	r3, err3 := run.h.Call(name, hc.A, mk()...)
	if err1 != nil || err2 != nil || err3 != nil {
		run.fail("C19/count", "swap-failed", "Get/Set/Func/Call sequence on %s failed: %v / %v / %v", name, err1, err2, err3)
		return
	}
	for i := 0; i < hc.A; i++ {
		if !bPool[hc.Params[i]].matches(r1[i]) {
			run.fail("C19/count", "stale-handle", "Func on the script function fetched with Get(%q) before Set(%q, native) returned %s: it must still invoke the function it was fetched as, with the given parameter %s", name, name, describe(r1[i]), bPool[hc.Params[i]])
			return
		}
		if r2[i].String() != "replacement" {
			run.fail("C19/count", "set-ignored", "Call(%q) after Set(%q, native) did not invoke the native: %s", name, name, describe(r2[i]))
			return
		}
		if !bPool[hc.Params[i]].matches(r3[i]) {
			run.fail("C19/count", "restore", "after Set(%q, original) Call returned %s", name, describe(r3[i]))
			return
		}
	}
}

func (boundary) Shrink(plan any) []func() any {
	p := plan.(*BPlan)
	var out []func() any
	mod := func(f func(q *BPlan)) {
		out = append(out, func() any {
			q := core.CloneJSON(p)
			f(q)
			return q
		})
	}
	// sites refer to each other by index: neutralise instead of removing
	for i := range p.Sites {
		i := i
		if !p.Sites[i].Skip && p.Sites[i].Ctx != "gone" {
			mod(func(q *BPlan) { q.Sites[i].Ctx, q.Sites[i].Skip = "gone", true })
		}
		for j := range p.Sites[i].Args {
			j := j
			if p.Sites[i].Args[j].Kind != "pool" || p.Sites[i].Args[j].N != 3 {
				mod(func(q *BPlan) { q.Sites[i].Args[j] = BArg{Kind: "pool", N: 3} })
			}
		}
		if p.Sites[i].Spread {
			mod(func(q *BPlan) { q.Sites[i].Spread = false })
		}
	}
	for _, c := range core.DropChunks(p.HostCalls, 0) {
		c := c
		mod(func(q *BPlan) { q.HostCalls = c })
	}
	for _, c := range core.DropChunks(p.Faults, 0) {
		c := c
		mod(func(q *BPlan) { q.Faults = c })
	}
	if p.OptimizeOff {
		mod(func(q *BPlan) { q.OptimizeOff = false })
	}
	return out
}
