package engines

import (
	"errors"
	"fmt"
	"strings"

	"github.com/philhassey/goatlang"

	"goatsim/core"
)

func (run *hsRun) natives(vm *goatlang.VM) {
	vm.Set("host.Fail", goatlang.NewFunc(0, 0, func(v *goatlang.VM) {
		run.failN++
		for _, nf := range run.p.NativeFaults {
			if nf.At != run.failN {
				continue
			}
			run.h.C.Inc("fault:native-panic")
			run.h.H.Add("native", "fail", nf.Kind)
			switch nf.Kind {
			case "string":
				panic("injected native failure")
			case "error":
				panic(errors.New("injected native failure"))
			case "runtime":
				var m map[string]int
				m["x"] = 1 // a genuine runtime.Error
			default:
				panic(customPanic{N: run.failN})
			}
		}
	}))
	vm.Set("host.Nest", goatlang.NewFunc(0, 0, func(v *goatlang.VM) {
		if run.nestLeft > 0 {
			run.nestLeft--
			_, err := run.h.Eval("nest", `import "host"; host.Fail(); host.Nest()`)
			run.note("eval", "nest", err)
			if err != nil && !run.swallow {
				panic(err)
			}
			return
		}
		c := run.pending
		if c == nil {
			return
		}
		run.pending = nil
		if err := run.perform(c); err != nil && !c.Swallow {
			panic(err)
		}
	}))
	// natives used by generated programs; their results are irrelevant here
	vm.Set("host.Mark", goatlang.NewFunc(1, 1, func(v *goatlang.VM, a []goatlang.Value) goatlang.Value { return goatlang.Int(0) }))
	vm.Set("host.Obs", goatlang.NewFunc(1, 0, func(v *goatlang.VM, a []goatlang.Value, va ...goatlang.Value) []goatlang.Value { return nil }))
	vm.Set("host.Tag", goatlang.NewFunc(1, 1, func(v *goatlang.VM, a []goatlang.Value) goatlang.Value { return a[0] }))
	// the other engines' natives, as inert stand-ins (sources from their generators are pool material here)
	anyArgs := func(v *goatlang.VM, a []goatlang.Value, va ...goatlang.Value) []goatlang.Value { return nil }
	one := func(v *goatlang.VM, a []goatlang.Value, va ...goatlang.Value) []goatlang.Value {
		return []goatlang.Value{goatlang.Int(1 + run.failN%3)}
	}
	for _, n := range []string{"Enter", "Leave", "At", "Op", "Get", "GetOk", "Len", "Start", "Iter", "End", "Init"} {
		vm.Set("host."+n, goatlang.NewFunc(1, 0, anyArgs))
	}
	for _, n := range []string{"Idx", "Den", "Flag", "Give", "Re", "NegZero", "N0", "N1", "N2", "N3", "N4", "N5", "N6", "N7", "N8", "N9", "N10"} {
		vm.Set("host."+n, goatlang.NewFunc(1, 1, one))
	}
}

var hsWrappers = map[string]string{
	"native": `import "host"; host.Fail(); host.Nest()`,
	"func":   `import "host"; func hsWrap(n int) int { if n > 0 { return hsWrap(n-1) + 1 }; host.Fail(); host.Nest(); return 0 }; hsWrap(3)`,
	"sort":   `import "host"; import "golang.org/x/exp/slices"; hsS := []int{3,1,2}; slices.SortFunc(hsS, func(a, b int) bool { host.Fail(); host.Nest(); return a < b })`,
	"yield":  `import "time"; import "host"; host.Fail(); time.Sleep(1000)`,
	"method": `import "host"; type HsT struct { A int }; func (t *HsT) Go() int { host.Fail(); host.Nest(); return t.A }; hsT := &HsT{A: 1}; hsT.Go()`,
}

const hsInitPkg = "package hswrap\nimport \"host\"\nfunc init() { host.Fail(); host.Nest() }\n"

func (run *hsRun) deliver(c *HSCall) {
	if c.Via == "" {
		run.perform(c)
		return
	}
	run.pending, run.nestLeft, run.swallow = c, c.Depth, c.Swallow
	var err error
	if c.Via == "init" {
		run.h.Disk.Write("hswrap/w.go", []byte(hsInitPkg))
		err = run.h.Load("hswrap")
		run.note("load", "via-init", err)
	} else {
		_, err = run.h.Eval("wrap-"+c.Via, hsWrappers[c.Via])
		run.note("eval", "via-"+c.Via, err)
	}
	run.pending, run.nestLeft = nil, 0
}

func (run *hsRun) opts(c *HSCall) []goatlang.RunOption {
	var o []goatlang.RunOption
	if c.Tree {
		o = append(o, goatlang.WithTreeDump(run.tree))
	}
	if c.Code {
		o = append(o, goatlang.WithCodeDump(run.code))
	}
	if c.Imports {
		o = append(o, goatlang.WithEvalImports(run.imports))
	}
	return o
}

func hsValue(p HSParam) goatlang.Value {
	switch p.Kind {
	case "int":
		return goatlang.Int(int(p.I))
	case "float":
		return goatlang.Float64(p.F)
	case "string":
		return goatlang.String(p.S)
	case "bool":
		return goatlang.Bool(p.I != 0)
	case "slice":
		vs := make([]goatlang.Value, p.I)
		for i := range vs {
			vs[i] = goatlang.Int(i)
		}
		return goatlang.NewSlice(goatlang.TypeInt32, vs)
	case "byte":
		return goatlang.Byte(byte(p.I))
	}
	return goatlang.Nil()
}

func (run *hsRun) perform(c *HSCall) error {
	var err error
	if c.Damage != "" && c.Damage != "none" {
		run.h.C.Inc("fault:damage-" + strings.TrimSuffix(c.Damage, "+"))
	}
	var params []goatlang.Value
	for _, p := range c.Params {
		params = append(params, hsValue(p))
	}
	switch c.Kind {
	case "eval":
		_, err = run.h.Eval(c.Name, string(c.Src), run.opts(c)...)
		if err != nil {
			run.crossCheckStage(c, err)
		}
	case "load":
		err = run.h.Load(c.Name, run.opts(c)...)
	case "call":
		_, err = run.h.Call(c.Name, c.XRets, params...)
	case "func":
		_, err = run.h.Func(run.h.VM.Get(c.Name), c.XRets, params...)
	}
	run.note(c.Kind, c.Via, err)
	return err
}

// crossCheckStage: tokenizing and parsing are pure functions of the source text, so the
// stage probe (tokenize -> parse on a fresh VM, nothing else) says which of the two fails,
// if any; Eval's error must then be prefixed with exactly that stage.
func (run *hsRun) crossCheckStage(c *HSCall, err error) {
	var esc *core.ErrEscaped
	if errors.As(err, &esc) {
		return
	}
	st, perr := goatlang.VerifStages("eval", core.NewSimDisk(nil, nil).FS(), c.Name, string(c.Src))
	if perr == nil || (st != "tokenize" && st != "parse") {
		return
	}
	m := stageRe.FindStringSubmatch(err.Error())
	if m != nil && m[1] != st {
		run.res.Fail("C03", "C03/stage", "wrong-stage-"+st, "the source fails in %s (%v), but Eval reports the failure as %q", st, firstLine(perr.Error()), firstLine(err.Error()))
	}
	run.h.C.Inc("stage_crosschecked")
}

// note classifies the outcome of one entry-point call and applies C03/stage.
func (run *hsRun) note(kind, via string, err error) {
	out := "ok"
	var esc *core.ErrEscaped
	switch {
	case err == nil:
	case errors.As(err, &esc):
		out = "ESCAPE"
	case kind == "eval" || kind == "load":
		msg := err.Error()
		m := stageRe.FindStringSubmatch(msg)
		switch {
		case m != nil && (kind == "eval" || m[1] == "load" || m[1] == "compile" || m[1] == "run"):
			out = m[1]
		case kind == "load" && strings.HasPrefix(msg, "unexpected returns:"):
			out = "unexpected-returns"
		default:
			out = "UNSTAGED"
			run.res.Fail("C03", "C03/stage", kind+":"+normErr(msg, 40), "%s returned an error that does not start with its failing stage: %q", kind, firstLine(msg))
		}
		if out != "UNSTAGED" {
			out += "/" + normErr(strings.TrimPrefix(msg, "error in "+out+": "), 28)
		}
	default:
		out = "err/" + normErr(err.Error(), 28)
	}
	stage := out
	if i := strings.IndexByte(stage, '/'); i >= 0 {
		stage = stage[:i]
	}
	if core.IsBudget(err) {
		stage = "budget"
	}
	run.h.C.Inc("outcome:" + kind + "/" + stage)
	run.abs = append(run.abs, kind+"~"+via+"~"+out)
}

func firstLine(s string) string {
	if i := strings.IndexByte(s, '\n'); i >= 0 {
		s = s[:i]
	}
	if len(s) > 200 {
		s = s[:200]
	}
	return s
}

// Stages runs only tokenize/parse/load/compile for every Eval/Load of a plan
// (watchdog triage: these must terminate).
func (hostsafe) Stages(plan any) error {
	p := plan.(*HSPlan)
	disk := core.NewSimDisk(p.Files, nil)
	for _, c := range p.Calls {
		switch c.Kind {
		case "eval":
			st, err := goatlang.VerifStagesDump("eval", disk.FS(), c.Name, string(c.Src), c.Tree, c.Code)
			fmt.Printf("eval %q: %s %v\n", c.Name, st, err != nil)
		case "load":
			st, err := goatlang.VerifStagesDump("load", disk.FS(), c.Name, "", c.Tree, c.Code)
			fmt.Printf("load %q: %s %v\n", c.Name, st, err != nil)
		}
	}
	return nil
}

// --- minimisation --------------------------------------------------------------

func min2(a, b int) int {
	if a < b {
		return a
	}
	return b
}

func shrinkBytes(b []byte) [][]byte {
	var out [][]byte
	if len(b) == 0 {
		return nil
	}
	out = append(out, nil)
	// by lines / statements
	sep := "\n"
	if strings.Count(string(b), "\n") < 2 {
		sep = ";"
	}
	parts := strings.SplitAfter(string(b), sep)
	if len(parts) > 256 {
		// a very long source: coarse groups first (every candidate is a copy of the text); later
		// rounds work on what is left with finer ones
		g := (len(parts) + 255) / 256
		var grouped []string
		for i := 0; i < len(parts); i += g {
			grouped = append(grouped, strings.Join(parts[i:min2(i+g, len(parts))], ""))
		}
		parts = grouped
	}
	if len(parts) > 1 {
		for _, c := range core.DropChunks(parts, 0) {
			out = append(out, []byte(strings.Join(c, "")))
		}
	}
	if len(b) <= 160 {
		for _, c := range core.DropChunks([]byte(b), 0) {
			out = append(out, c)
		}
	} else {
		out = append(out, b[:len(b)/2], b[len(b)/2:], b[:len(b)*3/4], b[len(b)/4:])
	}
	return out
}

func (hostsafe) Shrink(plan any) []func() any {
	p := plan.(*HSPlan)
	var out []func() any
	mod := func(f func(q *HSPlan)) {
		out = append(out, func() any {
			q := core.CloneJSON(p)
			f(q)
			return q
		})
	}
	for _, c := range core.DropChunks(p.Calls, 1) {
		c := c
		mod(func(q *HSPlan) { q.Calls = c })
	}
	if len(p.DiskFaults) > 0 {
		for _, c := range core.DropChunks(p.DiskFaults, 0) {
			c := c
			mod(func(q *HSPlan) { q.DiskFaults = c })
		}
	}
	if len(p.DiskEdits) > 0 {
		mod(func(q *HSPlan) { q.DiskEdits = nil })
	}
	if len(p.WriterFaults) > 0 {
		mod(func(q *HSPlan) { q.WriterFaults = nil })
	}
	if len(p.NativeFaults) > 0 {
		mod(func(q *HSPlan) { q.NativeFaults = nil })
	}
	for _, c := range core.DropChunks(p.Files, 0) {
		c := c
		mod(func(q *HSPlan) { q.Files = c })
	}
	if p.Rich {
		mod(func(q *HSPlan) { q.Rich = false })
	}
	if p.Chunk != 0 {
		mod(func(q *HSPlan) { q.Chunk = 0 })
	}
	if p.OptimizeOff {
		mod(func(q *HSPlan) { q.OptimizeOff = false })
	}
	if p.Budget != 200000 {
		mod(func(q *HSPlan) { q.Budget = 200000 })
	}
	for i := range p.Calls {
		i := i
		c := p.Calls[i]
		if c.Via != "" {
			mod(func(q *HSPlan) { q.Calls[i].Via, q.Calls[i].Depth, q.Calls[i].Swallow = "", 0, false })
			if c.Depth > 0 {
				mod(func(q *HSPlan) { q.Calls[i].Depth = 0 })
			}
		}
		if c.Tree {
			mod(func(q *HSPlan) { q.Calls[i].Tree = false })
		}
		if c.Code {
			mod(func(q *HSPlan) { q.Calls[i].Code = false })
		}
		if c.Imports {
			mod(func(q *HSPlan) { q.Calls[i].Imports = false })
		}
		if len(c.Params) > 0 {
			mod(func(q *HSPlan) { q.Calls[i].Params = nil })
		}
		if c.XRets > 0 {
			mod(func(q *HSPlan) { q.Calls[i].XRets = 0 })
		}
		for _, b := range shrinkBytes(c.Src) {
			b := b
			mod(func(q *HSPlan) { q.Calls[i].Src = b; q.Calls[i].Damage = "minimised" })
		}
	}
	for i := range p.Files {
		i := i
		for _, b := range shrinkBytes(p.Files[i].Data) {
			b := b
			mod(func(q *HSPlan) { q.Files[i].Data = b })
		}
	}
	return out
}
