package engines

import (
	"fmt"
	"strings"

	"goatsim/core"
)

// progGen generates sequences of top-level statements that are well-typed,
// define-before-use and free of run-time failures by construction. Every
// statement is one line. It steers around the defects listed in DESIGN.md
// section 2.3a (they belong to properties this framework does not decide).
type progGen struct {
	r       *core.PRNG
	ints    []string // global int variables
	vars    []string // those declared with var (may be declared again)
	consts  []string
	named   bool // the named type Amt is currently float64
	strs    []string
	slices  []string // []int
	maps    []string // map[string]int
	funcs   []string // func(int, int) int
	arity   map[string]int // functions defined again with another number of parameters (default 2)
	fvals   []string // variables holding a function value taken from one of funcs
	captured map[string]bool // functions whose value was taken (they keep two parameters)
	structC bool     // type P has been declared again with the field C
	vfuncs  []string // variadic functions
	sconsts []string // string / float constants
	alias   string   // the package the import alias "al" is bound to now
	pending []string // statements that must follow the one just returned
	long    bool     // many block scopes in one program (local slot numbers grow large)
	structs bool
	insts   []string
	imports map[string]bool
	n       int
	obs     bool // use host.Obs for reporting
	lib     bool // a script package "lib" is on the disk
}

func (g *progGen) id(prefix string) string {
	g.n++
	return fmt.Sprintf("%s%d", prefix, g.n)
}

func (g *progGen) intAtom() string {
	switch k := g.r.Intn(10); {
	case k < 4 && len(g.ints) > 0:
		return core.Pick(g.r, g.ints)
	case k < 5 && len(g.slices) > 0:
		return "len(" + core.Pick(g.r, g.slices) + ")"
	case k < 6 && len(g.insts) > 0:
		return core.Pick(g.r, g.insts) + ".A"
	case k < 7 && len(g.strs) > 0:
		return "len(" + core.Pick(g.r, g.strs) + ")"
	case k < 9 && g.imports["lib"] && g.r.Chance(1, 3):
		return "lib.Twice(" + fmt.Sprint(g.r.Intn(20)) + ")"
	case k < 8 && len(g.maps) > 0:
		return core.Pick(g.r, g.maps) + `["` + core.Pick(g.r, []string{"a", "b", "c"}) + `"]`
	}
	return fmt.Sprint(g.r.Intn(20))
}

// intExpr stays small (every product and sum is reduced mod 1000) so that no
// int32 overflow is ever involved, and uses only + - * % with parentheses.
func (g *progGen) intExpr(depth int) string {
	if depth <= 0 || g.r.Chance(1, 3) {
		return g.intAtom()
	}
	a, b := g.intExpr(depth-1), g.intExpr(depth-1)
	switch g.r.Intn(6) {
	case 0:
		return "(" + a + " + " + b + ") % 1000"
	case 1:
		return "(" + a + " - " + b + ")"
	case 2:
		return "((" + a + ") % 30) * ((" + b + ") % 30)"
	case 3:
		if len(g.fvals) > 0 && g.r.Chance(1, 3) {
			return core.Pick(g.r, g.fvals) + "(" + a + ", " + b + ")"
		}
		if len(g.funcs) > 0 {
			return g.call(core.Pick(g.r, g.funcs), a, b)
		}
	case 4:
		if len(g.insts) > 0 {
			return core.Pick(g.r, g.insts) + ".Sum(" + a + ")"
		}
	}
	return "(" + a + " + " + b + ") % 1000"
}

// call renders a call of script function f with its current number of parameters.
func (g *progGen) call(f, a, b string) string {
	switch g.arity[f] {
	case 1:
		return f + "(" + a + ")"
	case 3:
		return f + "(" + a + ", " + b + ", 1)"
	}
	return f + "(" + a + ", " + b + ")"
}

// plain2 picks a function that still has two parameters ("" if none).
func (g *progGen) plain2() string {
	var c []string
	for _, f := range g.funcs {
		if g.arity[f] == 0 || g.arity[f] == 2 {
			c = append(c, f)
		}
	}
	if len(c) == 0 {
		return ""
	}
	return core.Pick(g.r, c)
}

func (g *progGen) boolExpr() string {
	a, b := g.intExpr(1), g.intExpr(1)
	op := core.Pick(g.r, []string{"<", ">", "<=", ">=", "==", "!="})
	e := a + " " + op + " " + b
	if g.r.Chance(1, 4) {
		e = "(" + e + ") && (" + g.intExpr(0) + " != 7)"
	}
	return e
}

func (g *progGen) strExpr() string {
	switch k := g.r.Intn(6); {
	case k < 2 && len(g.strs) > 0:
		return core.Pick(g.r, g.strs)
	case k < 3 && len(g.strs) > 0:
		return core.Pick(g.r, g.strs) + ` + "` + core.Pick(g.r, []string{"x", "yz", "-", ""}) + `"`
	case k < 4 && g.imports["strconv"]:
		return "strconv.Itoa(" + g.intExpr(1) + ")"
	}
	return `"` + core.Pick(g.r, []string{"a", "bc", "hello", "", "go at", "go  at", " ", "  ", "a b", "a  b", " a"}) + `"`
}

func (g *progGen) report() string {
	var args []string
	n := 1 + g.r.Intn(3)
	for i := 0; i < n; i++ {
		if g.r.Chance(1, 3) && len(g.strs) > 0 {
			args = append(args, g.strExpr())
		} else {
			args = append(args, g.intExpr(1))
		}
	}
	if g.obs && g.r.Bool() {
		return fmt.Sprintf("host.Obs(%q, %s)", g.id("o"), strings.Join(args, ", "))
	}
	if g.imports["fmt"] && g.r.Bool() {
		return "fmt.Println(" + strings.Join(args, ", ") + ")"
	}
	return "println(" + strings.Join(args, ", ") + ")"
}

// smallStmt is a statement usable inside blocks; it only assigns to globals.
func (g *progGen) smallStmt() string {
	switch k := g.r.Intn(8); {
	case k < 3 && len(g.ints) > 0:
		return core.Pick(g.r, g.ints) + " = " + g.intExpr(2)
	case k < 4 && len(g.ints) > 0:
		return core.Pick(g.r, g.ints) + " += " + g.intExpr(1)
	case k < 5 && len(g.slices) > 0:
		s := core.Pick(g.r, g.slices)
		return s + " = append(" + s + ", " + g.intExpr(1) + ")"
	case k < 6 && len(g.maps) > 0:
		return core.Pick(g.r, g.maps) + `["` + core.Pick(g.r, []string{"a", "b", "c"}) + `"] = ` + g.intExpr(1)
	case k < 7 && len(g.insts) > 0:
		return core.Pick(g.r, g.insts) + ".A = " + g.intExpr(1)
	}
	return g.report()
}

func (g *progGen) block(n int) string {
	var ss []string
	for i := 0; i < n; i++ {
		ss = append(ss, g.smallStmt())
	}
	return "{ " + strings.Join(ss, "; ") + " }"
}

// scoped picks a name for a block-scoped variable: from a small pool that recurs
// across statements, or the name of an existing global (shadowing).
func (g *progGen) scoped() string {
	if len(g.ints) > 0 && g.r.Chance(1, 3) {
		return core.Pick(g.r, g.ints)
	}
	return core.Pick(g.r, []string{"i", "j", "k", "v", "t"})
}

func (g *progGen) target() string {
	if len(g.vars) > 0 {
		return core.Pick(g.r, g.vars)
	}
	return ""
}

// scopedStmt: block scopes (if-with-init, for, range), nested, with int, float64
// and byte variables, whose names may shadow globals; the global is read again
// afterwards.
func (g *progGen) scopedStmt() string {
	tg := g.target()
	if tg == "" {
		return ""
	}
	a, b := g.scoped(), g.scoped()
	acc := func(x string) string { return fmt.Sprintf("%s = (%s + %s) %% 1000", tg, tg, x) }
	if a == tg || b == tg {
		acc = func(x string) string { return fmt.Sprintf("host.Obs(%q, %s)", g.id("s"), x) }
	}
	var s string
	k := g.r.Intn(8)
	f2 := g.plain2()
	if f2 != "" && g.r.Chance(1, 5) {
		k = 8 + g.r.Intn(2)
	}
	switch k {
	case 8:
		// a call through a block-scoped function variable
		h := core.Pick(g.r, []string{"h", "fn", a})
		s = fmt.Sprintf("if %s := %s; %s(%s, 1) >= 0 - 5000 { %s }", h, f2, h, g.intExpr(0), acc(h+"(2, "+g.intExpr(0)+")"))
	case 9:
		h := core.Pick(g.r, []string{"h", "fn"})
		s = fmt.Sprintf("for _, %s := range []func(int, int) int{%s, %s} { %s }", h, f2, g.plain2(), acc(h+"(3, "+g.intExpr(0)+")"))
	case 0:
		s = fmt.Sprintf("if %s := %s; %s > 3 { %s } else { %s }", a, g.intExpr(1), a, acc(a), acc(a+" + 1"))
	case 1:
		s = fmt.Sprintf("if %s := %s; %s >= 0 { if %s := %s + 2; %s > 1 { %s }; %s }", a, g.intExpr(0), a, b, a, b, acc(b), acc(a))
	case 2:
		s = fmt.Sprintf("for %s := 0; %s < 3; %s++ { host.Obs(%q, %s, %s / 2); if %s := %s * 2; %s > 1 { %s } }", a, a, a, g.id("l"), a, a, b, a, b, acc(b))
	case 3:
		s = fmt.Sprintf("for _, %s := range []float64{0.5, 1.5} { host.Obs(%q, %s, %s * 2.0) }", a, g.id("f"), a, a)
	case 4:
		s = fmt.Sprintf("if %s := byte(200); %s > 100 { host.Obs(%q, %s, %s + 100) }", a, a, g.id("b"), a, a)
	case 5:
		s = fmt.Sprintf("for %s := 0.5; %s < 2.0; %s += 1.0 { host.Obs(%q, %s) }", a, a, a, g.id("q"), a)
	case 6:
		s = fmt.Sprintf("for %s := 0; %s < 2; %s++ { for %s := 0; %s < 2; %s++ { %s } }", a, a, a, b, b, b, acc(a+" * 2 + "+b))
	default:
		// (goatlang has no `switch init; tag` form: the scoped variable comes from an enclosing if)
		s = fmt.Sprintf("if %s := %s; %s >= 0 - 1000 { switch %s %% 2 { case 0: %s; default: %s } }", a, g.intExpr(1), a, a, acc(a), acc(a+" + 7"))
	}
	return s + "; host.Obs(" + fmt.Sprintf("%q", g.id("g")) + ", " + tg + ")"
}

// stmt returns one top-level statement (one line).
func (g *progGen) stmt() string {
	if len(g.pending) > 0 {
		st := g.pending[0]
		g.pending = g.pending[1:]
		return st
	}
	for {
		k := g.r.Intn(58)
		if g.long && g.obs && g.r.Bool() {
			k = 22
		}
		switch k {
		case 56, 57:
			// a variable holding a value of one type, declared again without initialiser at another
			// type: the declaration keeps the value, wherever the message boundary falls
			if !g.obs {
				continue
			}
			v := g.id("rv")
			pair := core.Pick(g.r, [][2]string{{"2.5", "int"}, {"\"s\"", "int"}, {"3", "float64"}, {"4", "string"}, {"7", "int"}})
			g.pending = append(g.pending, fmt.Sprintf("var %s %s", v, pair[1]), fmt.Sprintf("host.Obs(%q, %s)", g.id("rr"), v))
			return fmt.Sprintf("%s := %s", v, pair[0])
		case 50, 51:
			// the struct type declared again with one more field, and a literal that sets it
			if !g.structs || !g.obs || g.structC {
				continue
			}
			g.structC = true
			v := g.id("pc")
			g.pending = append(g.pending, fmt.Sprintf("%s := &P{A: %d, B: \"c\", C: 2.5}; host.Obs(%q, %s.A, %s.C)", v, g.r.Intn(50), g.id("pf"), v, v))
			return "type P struct { A int; B string; C float64 }"
		case 52, 53:
			// a function multiplying a byte by a package constant: the result keeps its dynamic type
			if len(g.consts) == 0 || !g.obs {
				continue
			}
			f := g.id("kb")
			g.pending = append(g.pending, fmt.Sprintf("host.Obs(%q, %s(byte(%d)))", g.id("kr"), f, 1+g.r.Intn(5)))
			return fmt.Sprintf("func %s(b byte) any { return b * %s }", f, core.Pick(g.r, g.consts))
		case 54, 55:
			// a variadic function that tells a nil slice from an empty one, called with and without arguments
			if !g.obs {
				continue
			}
			if len(g.vfuncs) > 0 && g.r.Chance(2, 3) {
				f := core.Pick(g.r, g.vfuncs)
				return fmt.Sprintf("host.Obs(%q, %s(), %s(%d), %s(1, 2))", g.id("vr"), f, f, g.r.Intn(9), f)
			}
			f := g.id("va")
			g.vfuncs = append(g.vfuncs, f)
			return fmt.Sprintf("func %s(xs ...int) int { if xs == nil { return 0 - 1 }; return len(xs) }", f)
		case 46, 47:
			// string and float constants, declared again with another value between two reads
			if !g.obs {
				continue
			}
			if len(g.sconsts) > 0 && g.r.Bool() {
				c := core.Pick(g.r, g.sconsts)
				if strings.HasPrefix(c, "ks") {
					return fmt.Sprintf("const %s = %q; host.Obs(%q, %s)", c, core.Pick(g.r, []string{"x", "y y", "", "zz"}), g.id("kc"), c)
				}
				return fmt.Sprintf("const %s = %d.25; host.Obs(%q, %s)", c, g.r.Intn(9), g.id("kc"), c)
			}
			if g.r.Bool() {
				c := g.id("ks")
				g.sconsts = append(g.sconsts, c)
				return fmt.Sprintf("const %s = %q; host.Obs(%q, %s)", c, core.Pick(g.r, []string{"p", "q q", "r"}), g.id("kc"), c)
			}
			c := g.id("kf")
			g.sconsts = append(g.sconsts, c)
			return fmt.Sprintf("const %s = %d.5; host.Obs(%q, %s)", c, g.r.Intn(9), g.id("kc"), c)
		case 48, 49:
			// an import alias bound to one package and later to another; uses follow the binding
			if !g.obs {
				continue
			}
			pk := core.Pick(g.r, []string{"strings", "strconv"})
			if g.alias == pk || g.r.Chance(1, 3) && g.alias != "" {
				use := map[string]string{"strings": "al.Repeat(\"ab\", 2)", "strconv": "al.Itoa(42)"}[g.alias]
				return fmt.Sprintf("host.Obs(%q, %s)", g.id("au"), use)
			}
			g.alias = pk
			use := map[string]string{"strings": "al.Repeat(\"cd\", 3)", "strconv": "al.Itoa(7)"}[pk]
			g.pending = append(g.pending, fmt.Sprintf("host.Obs(%q, %s)", g.id("au"), use))
			return fmt.Sprintf("import ( al %q )", pk)
		case 42:
			// a function whose body names a package that is imported only by the NEXT statement
			// (in both strategies the package is unknown where the function is compiled)
			var cands []string
			for _, pk := range []string{"strconv", "strings", "math"} {
				if !g.imports[pk] {
					cands = append(cands, pk)
				}
			}
			if len(cands) == 0 || !g.obs {
				continue
			}
			pk := core.Pick(g.r, cands)
			g.imports[pk] = true
			f := g.id("early")
			use := map[string]string{"strconv": "strconv.Itoa(7)", "strings": "strings.Repeat(\"a\", 3)", "math": "math.Floor(2.5)"}[pk]
			g.pending = append(g.pending, fmt.Sprintf("import %q", pk), fmt.Sprintf("host.Obs(%q, %s())", g.id("e"), f))
			return fmt.Sprintf("func %s() any { return %s }", f, use)
		case 43, 44:
			// float arithmetic at the top level (operands and results are floats on the value stack)
			if !g.obs {
				continue
			}
			v := g.id("fl")
			return fmt.Sprintf("%s := %s * %s; host.Obs(%q, %s)", v, core.Pick(g.r, []string{"1.5", "0.25", "3.0"}), core.Pick(g.r, []string{"3.0", "2.5", "0.5"}), g.id("fo"), v)
		case 45:
			// a function whose locals are initialised from constants and divided
			f := g.id("f")
			g.funcs = append(g.funcs, f)
			return fmt.Sprintf("func %s(p int, q int) int { s := %d; t := s / 2; u := t; return (p + q + t*3 + u) %% 1000 }", f, 5+2*g.r.Intn(20))
		case 40, 41:
			// a variable of a struct type (or pointer to it) declared without initialiser and read at once
			if !g.structs || !g.obs {
				continue
			}
			v := g.id("z")
			if g.r.Bool() {
				return fmt.Sprintf("var %s *P; host.Obs(%q, %s == nil, %s)", v, g.id("zp"), v, v)
			}
			return fmt.Sprintf("var %s P; host.Obs(%q, %s)", v, g.id("zv"), v)
		case 37:
			// a bare call statement of a script function that has a result
			if len(g.funcs) == 0 {
				continue
			}
			if len(g.insts) > 0 && g.r.Chance(1, 3) {
				return core.Pick(g.r, g.insts) + ".Sum(" + g.intExpr(1) + ")"
			}
			return g.call(core.Pick(g.r, g.funcs), g.intExpr(1), g.intExpr(1))
		case 38, 39:
			// a function value taken now, called later (the function may be defined again in between)
			if len(g.funcs) == 0 {
				continue
			}
			f := g.plain2()
			if f == "" {
				continue
			}
			v := g.id("g")
			g.fvals = append(g.fvals, v)
			if g.captured == nil {
				g.captured = map[string]bool{}
			}
			g.captured[f] = true
			return fmt.Sprintf("%s := %s", v, f)
		case 32:
			// a script function named like a builtin; later statements call it by that name
			if !g.obs || g.imports["#print"] {
				continue
			}
			g.imports["#print"] = true
			return fmt.Sprintf("func print(a int) { host.Obs(%q, a) }", g.id("myprint"))
		case 33:
			if !g.imports["#print"] {
				continue
			}
			return "print(" + g.intExpr(1) + ")"
		case 34:
			// a method with a function-local named type that shares its name with a global
			if !g.structs || len(g.vars) == 0 || g.imports["#localtype"] {
				continue
			}
			g.imports["#localtype"] = true
			return fmt.Sprintf("func (p *P) Scaled(n int) int { type %s int; var w %s = 2; return (p.A + n * int(w)) %% 1000 }", g.vars[0], g.vars[0])
		case 35:
			// a named non-struct type, (re)declared with another underlying type between uses
			if g.imports["#named"] {
				g.named = !g.named
			}
			g.imports["#named"] = true
			if g.named {
				return "type Amt float64"
			}
			return "type Amt int"
		case 36:
			if !g.imports["#named"] || !g.obs {
				continue
			}
			v := g.id("amt")
			return fmt.Sprintf("var %s Amt = %d; host.Obs(%q, %s / 2)", v, 3+2*g.r.Intn(5), g.id("amt"), v)
		case 27:
			// declaring a constant again, with another value (REPL semantics: the later one holds)
			if len(g.consts) == 0 {
				continue
			}
			return fmt.Sprintf("const %s = %d", core.Pick(g.r, g.consts), 50+g.r.Intn(50))
		case 28:
			// := on a name that is already a global gives it the new value
			if len(g.ints) == 0 {
				continue
			}
			return fmt.Sprintf("%s := %s", core.Pick(g.r, g.ints), g.intExpr(1))
		case 29:
			// an if whose branches are empty
			if g.r.Bool() {
				return "if " + g.boolExpr() + " { }"
			}
			return "if " + g.boolExpr() + " { } else { }"
		case 30:
			// defining a function again between two uses
			if len(g.funcs) == 0 {
				continue
			}
			f := core.Pick(g.r, g.funcs)
			if g.r.Chance(1, 3) && !g.captured[f] {
				// another number of parameters; every later call uses the new shape
				if g.arity == nil {
					g.arity = map[string]int{}
				}
				if g.r.Bool() {
					g.arity[f] = 1
					return fmt.Sprintf("func %s(p int) int { return (p*%d + 1) %% 1000 }", f, 2+g.r.Intn(7))
				}
				g.arity[f] = 3
				return fmt.Sprintf("func %s(p int, q int, s int) int { return (p + q*%d + s) %% 1000 }", f, 2+g.r.Intn(7))
			}
			if g.arity[f] != 0 && g.arity[f] != 2 {
				continue
			}
			return fmt.Sprintf("func %s(p int, q int) int { return (p + q*%d) %% 1000 }", f, 2+g.r.Intn(7))
		case 31:
			// a constant computed from a variable that an earlier statement set
			if len(g.ints) == 0 {
				continue
			}
			v := g.id("c")
			g.consts = append(g.consts, v)
			g.ints = append(g.ints, v)
			return fmt.Sprintf("const %s = (%s + %d) %% 1000", v, core.Pick(g.r, g.ints[:len(g.ints)-1]), g.r.Intn(9))
		case 22, 23, 24:
			if !g.obs {
				continue
			}
			if s := g.scopedStmt(); s != "" {
				return s
			}
			continue
		case 25:
			// a global whose name is also used for block-scoped variables
			n := core.Pick(g.r, []string{"i", "j", "k", "v", "t"})
			if g.imports["#"+n] {
				continue
			}
			g.imports["#"+n] = true
			g.ints = append(g.ints, n)
			g.vars = append(g.vars, n)
			return fmt.Sprintf("var %s int", n)
		case 26:
			if !g.lib || g.imports["lib"] {
				continue
			}
			g.imports["lib"] = true
			return `import "lib"`
		case 0:
			pk := core.Pick(g.r, []string{"fmt", "strconv", "strings", "math"})
			if g.imports[pk] {
				continue
			}
			g.imports[pk] = true
			return fmt.Sprintf("import %q", pk)
		case 1, 2:
			v := g.id("x")
			s := fmt.Sprintf("%s := %s", v, g.intExpr(2))
			g.ints = append(g.ints, v)
			return s
		case 3:
			if len(g.vars) > 0 && g.r.Chance(1, 3) {
				// declaring a package variable again keeps its value (REPL semantics,
				// pinned by the suite's reloadVar case)
				return "var " + core.Pick(g.r, g.vars) + " int"
			}
			v := g.id("n")
			g.ints = append(g.ints, v)
			g.vars = append(g.vars, v)
			return "var " + v + " int"
		case 4:
			v := g.id("s")
			s := fmt.Sprintf("%s := %s", v, g.strExpr())
			g.strs = append(g.strs, v)
			return s
		case 5:
			v := g.id("a")
			s := fmt.Sprintf("%s := []int{%s, %s}", v, g.intExpr(1), g.intExpr(1))
			g.slices = append(g.slices, v)
			return s
		case 6:
			v := g.id("m")
			s := fmt.Sprintf(`%s := map[string]int{"a": %s}`, v, g.intExpr(1))
			g.maps = append(g.maps, v)
			return s
		case 7:
			v := g.id("c")
			s := fmt.Sprintf("const %s = %d", v, g.r.Intn(50))
			g.consts = append(g.consts, v)
			g.ints = append(g.ints, v) // goatlang constants are plain globals: usable as operands and targets
			return s
		case 8, 9:
			if len(g.ints) == 0 {
				continue
			}
			return g.smallStmt()
		case 10:
			if len(g.ints) == 0 {
				continue
			}
			if g.r.Bool() {
				return "if " + g.boolExpr() + " " + g.block(1+g.r.Intn(2)) + " else " + g.block(1)
			}
			return "if " + g.boolExpr() + " " + g.block(1+g.r.Intn(2))
		case 11:
			if len(g.ints) == 0 {
				continue
			}
			i := g.id("i")
			if g.r.Bool() {
				i = core.Pick(g.r, []string{"i", "j"}) // block-scoped names recur across statements (and messages)
			}
			t := core.Pick(g.r, g.ints)
			return fmt.Sprintf("for %s := 0; %s < %d; %s++ { %s = (%s + %s) %% 1000 }", i, i, 1+g.r.Intn(5), i, t, t, i)
		case 12:
			if len(g.slices) == 0 || len(g.ints) == 0 {
				continue
			}
			k, v := g.id("k"), g.id("v")
			if g.r.Bool() {
				k, v = "k", "v"
			}
			t := core.Pick(g.r, g.ints)
			return fmt.Sprintf("for %s, %s := range %s { %s = (%s + %s + %s) %% 1000 }", k, v, core.Pick(g.r, g.slices), t, t, k, v)
		case 13:
			if len(g.ints) == 0 {
				continue
			}
			t := core.Pick(g.r, g.ints)
			return fmt.Sprintf("switch (%s) %% 3 { case 0: %s; case 1: %s; default: %s }", g.intExpr(1), t+" = "+g.intExpr(1), g.smallStmt(), g.smallStmt())
		case 14:
			f := g.id("f")
			s := fmt.Sprintf("func %s(p int, q int) int { r := p*2 + q; if r > 500 { return r %% 500 }; return r }", f)
			g.funcs = append(g.funcs, f)
			return s
		case 15:
			if g.structs {
				continue
			}
			g.structs = true
			return "type P struct { A int; B string }"
		case 16:
			if !g.structs || g.imports["#Sum"] {
				continue
			}
			g.imports["#Sum"] = true
			return "func (p *P) Sum(d int) int { return (p.A + d) % 1000 }"
		case 17:
			if !g.imports["#Sum"] {
				continue
			}
			v := g.id("p")
			s := fmt.Sprintf(`%s := &P{A: %s, B: "b"}`, v, g.intExpr(1))
			g.insts = append(g.insts, v)
			return s
		case 18, 19:
			return g.report()
		case 20:
			if len(g.funcs) == 0 || len(g.ints) == 0 {
				continue
			}
			return core.Pick(g.r, g.ints) + " = " + g.call(core.Pick(g.r, g.funcs), g.intExpr(1), g.intExpr(1))
		case 21:
			if len(g.strs) == 0 {
				continue
			}
			return core.Pick(g.r, g.strs) + " = " + g.strExpr()
		}
	}
}

func (g *progGen) final() string {
	if len(g.funcs) > 0 && g.r.Chance(1, 6) {
		// the last statement is a bare call: a call statement has no value in either strategy
		return g.call(core.Pick(g.r, g.funcs), g.intExpr(1), g.intExpr(1))
	}
	switch g.r.Intn(4) {
	case 0:
		if len(g.strs) > 0 {
			return core.Pick(g.r, g.strs)
		}
	case 1:
		if len(g.slices) > 0 {
			return "len(" + core.Pick(g.r, g.slices) + ")"
		}
	}
	// never start a statement with "(" or an operator: after ";" goatlang applies
	// it to the empty statement (a parse defect that belongs to C01, steered around)
	return "0 + " + g.intExpr(2)
}

// GenStatements returns n top-level statements plus a final expression.
func GenStatements(r *core.PRNG, n int, obs bool) []string {
	g := &progGen{r: r, imports: map[string]bool{}, obs: obs, lib: obs, long: n > 20}
	var out []string
	if obs {
		out = append(out, `import "host"`)
	}
	for len(out) < n {
		out = append(out, g.stmt())
	}
	out = append(out, g.final())
	return out
}

// GenProgram returns a valid program: profile 0 = REPL-style statements,
// 1 = a package with main, 2 = statements using host natives.
func GenProgram(r *core.PRNG, profile int) string {
	switch profile {
	case 1:
		g := &progGen{r: r, imports: map[string]bool{}}
		var decls []string
		decls = append(decls, "package main")
		for i := 0; i < 3+r.Intn(6); i++ {
			decls = append(decls, g.stmt())
		}
		decls = append(decls, "func main() "+g.block(2))
		return strings.Join(decls, "\n") + "\n"
	case 2:
		return strings.Join(GenStatements(r, 3+r.Intn(10), true), "\n")
	}
	return strings.Join(GenStatements(r, 3+r.Intn(10), false), "; ")
}
