// Package core holds the simulator parts shared by every engine: the PRNG that
// is the single source of every choice, the history log, the simulated disk,
// writers, clock and session, the worker/driver process model, minimisation,
// replay files, known findings and evidence.
package core

// PRNG is SplitMix64. Own implementation so that streams never depend on the
// Go release. One PRNG per generated plan, seeded from Mix(VERIF_SEED,
// property, unit, sub-index); execution never draws from it.
type PRNG struct{ s uint64 }

func NewPRNG(seed uint64) *PRNG { return &PRNG{s: seed} }

func (p *PRNG) Uint64() uint64 {
	p.s += 0x9e3779b97f4a7c15
	z := p.s
	z = (z ^ (z >> 30)) * 0xbf58476d1ce4e5b9
	z = (z ^ (z >> 27)) * 0x94d049bb133111eb
	return z ^ (z >> 31)
}

// Intn returns a value in [0,n). n <= 0 yields 0.
func (p *PRNG) Intn(n int) int {
	if n <= 1 {
		return 0
	}
	return int(p.Uint64() % uint64(n))
}

// Range returns a value in [lo,hi].
func (p *PRNG) Range(lo, hi int) int {
	if hi <= lo {
		return lo
	}
	return lo + p.Intn(hi-lo+1)
}

func (p *PRNG) Bool() bool { return p.Uint64()&1 == 1 }

// Chance is true with probability num/den.
func (p *PRNG) Chance(num, den int) bool { return p.Intn(den) < num }

// Fork derives an independent stream.
func (p *PRNG) Fork() *PRNG { return NewPRNG(p.Uint64()) }

// Perm returns a permutation of 0..n-1.
func (p *PRNG) Perm(n int) []int {
	r := make([]int, n)
	for i := range r {
		r[i] = i
	}
	for i := n - 1; i > 0; i-- {
		j := p.Intn(i + 1)
		r[i], r[j] = r[j], r[i]
	}
	return r
}

// Pick returns one element of xs.
func Pick[T any](p *PRNG, xs []T) T { return xs[p.Intn(len(xs))] }

// Mix hashes a list of words into one seed.
func Mix(ws ...uint64) uint64 {
	h := uint64(0x243f6a8885a308d3)
	for _, w := range ws {
		h ^= w
		h *= 0x9e3779b97f4a7c15
		h = (h ^ (h >> 32)) * 0xd6e8feb86659fd93
		h ^= h >> 29
	}
	return h
}

// HashString is FNV-1a 64.
func HashString(s string) uint64 {
	h := uint64(14695981039346656037)
	for i := 0; i < len(s); i++ {
		h ^= uint64(s[i])
		h *= 1099511628211
	}
	return h
}
