package core

import (
	"errors"
	"fmt"
	"io"
	"io/fs"
	"sort"
	"strings"
	"syscall"
	"time"
)

// DiskFile is one file of a simulated tree as stored in a plan.
type DiskFile struct {
	Path string `json:"path"`
	Data Bytes  `json:"data"`
}

// DiskFault makes the Op-th disk operation (1-based, counted over open, read,
// readdir, stat and readfile operations of the whole run) misbehave.
//
//	eio-open, eacces-open  Open (or ReadFile/Stat) fails
//	eio-read               Read fails after Arg bytes of the file were delivered
//	eio-readdir            listing a directory fails
//	vanish                 the file or directory does not exist for this one operation
//	                       (listed a moment ago, deleted by the editor since)
type DiskFault struct {
	Op   int    `json:"op"`
	Kind string `json:"kind"`
	Arg  int    `json:"arg,omitempty"`
}

// DiskEdit is the concurrent editor at disk-operation granularity: just before
// operation AtOp the file is replaced (or deleted). An open handle whose
// InPlace flag is set sees the new bytes from its current offset on (spliced
// read); otherwise handles keep the snapshot taken at open (rename-style save).
type DiskEdit struct {
	AtOp    int    `json:"at_op"`
	Path    string `json:"path"`
	Data    Bytes  `json:"data,omitempty"`
	Delete  bool   `json:"delete,omitempty"`
	InPlace bool   `json:"in_place,omitempty"`
}

// ReadRec records the bytes one file read actually delivered.
type ReadRec struct {
	Op       int
	Path     string
	Data     []byte
	Complete bool
	Err      string
}

// FaultRec records a fired fault.
type FaultRec struct {
	Op   int
	Kind string
	Path string
}

// ListRec records one directory listing.
type ListRec struct {
	Op    int
	Dir   string
	Names []string
	Err   string
}

// SimDisk is the simulated file system handed to Load/Eval.
type SimDisk struct {
	files    map[string][]byte
	dirs     map[string]bool // explicit (possibly empty) directories
	Rich     bool            // implement ReadFile/ReadDir/Stat like os.DirFS; otherwise Open only
	Chunk    int             // bytes per Read call; 0 = whole file
	Ops      int
	Faults   []DiskFault
	Edits    []DiskEdit
	Fired    Counters
	H        *History
	Reads    []ReadRec
	Lists    []ListRec
	Mute     bool       // do not log to history (used for bulk runs)
	FaultLog []FaultRec // every fault that fired, with the path it hit
	open     []*simFile
}

func NewSimDisk(files []DiskFile, h *History) *SimDisk {
	d := &SimDisk{files: map[string][]byte{}, dirs: map[string]bool{}, Fired: Counters{}, H: h}
	for _, f := range files {
		d.Write(f.Path, f.Data)
	}
	return d
}

// Write stores (or replaces) a file. A path ending in "/" declares a directory.
func (d *SimDisk) Write(path string, data []byte) {
	if strings.HasSuffix(path, "/") {
		d.dirs[strings.TrimSuffix(path, "/")] = true
		return
	}
	cp := make([]byte, len(data))
	copy(cp, data)
	d.files[path] = cp
}

func (d *SimDisk) Remove(path string) { delete(d.files, path); delete(d.dirs, path) }

func (d *SimDisk) Content(path string) ([]byte, bool) { b, ok := d.files[path]; return b, ok }

func (d *SimDisk) Paths() []string {
	ps := make([]string, 0, len(d.files))
	for p := range d.files {
		ps = append(ps, p)
	}
	sort.Strings(ps)
	return ps
}

// ResetLog forgets the recorded reads and listings (start of a new Load).
func (d *SimDisk) ResetLog() { d.Reads = nil; d.Lists = nil }

func (d *SimDisk) log(kind, format string, args ...any) {
	if d.H != nil && !d.Mute {
		d.H.Add("disk", kind, fmt.Sprintf(format, args...))
	}
}

// step advances the operation counter, applies due edits and returns the fault
// planned for this operation, if any.
func (d *SimDisk) step() *DiskFault {
	d.Ops++
	for i := range d.Edits {
		e := &d.Edits[i]
		if e.AtOp != d.Ops {
			continue
		}
		d.Fired.Inc("edit")
		if e.Delete {
			d.Remove(e.Path)
			d.log("edit", "delete %s", e.Path)
		} else {
			d.Write(e.Path, e.Data)
			d.log("edit", "write %s len=%d", e.Path, len(e.Data))
			if e.InPlace {
				for _, f := range d.open {
					if f.path == e.Path && !f.closed {
						f.data = d.files[e.Path]
						if f.off > len(f.data) {
							f.off = len(f.data) // the file shrank under the reader
						}
						d.Fired.Inc("spliced-read")
					}
				}
			}
		}
	}
	for i := range d.Faults {
		if d.Faults[i].Op == d.Ops {
			return &d.Faults[i]
		}
	}
	return nil
}

func (d *SimDisk) isDir(name string) bool {
	if name == "." || d.dirs[name] {
		return true
	}
	pre := name + "/"
	for p := range d.files {
		if strings.HasPrefix(p, pre) {
			return true
		}
	}
	for p := range d.dirs {
		if strings.HasPrefix(p, pre) {
			return true
		}
	}
	return false
}

func (d *SimDisk) list(name string) []fs.DirEntry {
	seen := map[string]bool{}
	var out []fs.DirEntry
	pre := name + "/"
	if name == "." {
		pre = ""
	}
	add := func(p string, isFile bool, size int) {
		if !strings.HasPrefix(p, pre) || p == name {
			return
		}
		rest := p[len(pre):]
		if rest == "" {
			return
		}
		if i := strings.IndexByte(rest, '/'); i >= 0 {
			rest, isFile = rest[:i], false
		}
		if seen[rest] {
			return
		}
		seen[rest] = true
		out = append(out, dirEntry{name: rest, dir: !isFile, size: int64(size)})
	}
	for p, b := range d.files {
		add(p, true, len(b))
	}
	for p := range d.dirs {
		add(p+"/", false, 0)
	}
	sort.Slice(out, func(i, j int) bool { return out[i].Name() < out[j].Name() })
	return out
}

func pathErr(op, name string, err error) error { return &fs.PathError{Op: op, Path: name, Err: err} }

func faultErr(f *DiskFault) error {
	switch f.Kind {
	case "eacces-open":
		return fs.ErrPermission
	case "vanish":
		return fs.ErrNotExist
	}
	return syscall.EIO
}

func (d *SimDisk) doOpen(name string) (fs.File, error) {
	f := d.step()
	if !fs.ValidPath(name) {
		d.log("open", "%s -> invalid", name)
		return nil, pathErr("open", name, fs.ErrInvalid)
	}
	if f != nil && (f.Kind == "eio-open" || f.Kind == "eacces-open" || f.Kind == "vanish") {
		d.Fired.Inc(f.Kind)
		d.FaultLog = append(d.FaultLog, FaultRec{d.Ops, f.Kind, name})
		d.log("open", "%s -> FAULT %s", name, f.Kind)
		return nil, pathErr("open", name, faultErr(f))
	}
	if b, ok := d.files[name]; ok {
		sf := &simFile{d: d, path: name, data: b, rec: len(d.Reads)}
		d.Reads = append(d.Reads, ReadRec{Op: d.Ops, Path: name})
		d.open = append(d.open, sf)
		d.log("open", "%s file len=%d", name, len(b))
		return sf, nil
	}
	if d.isDir(name) {
		d.log("open", "%s dir", name)
		return &simDir{d: d, path: name}, nil
	}
	d.log("open", "%s -> not exist", name)
	return nil, pathErr("open", name, fs.ErrNotExist)
}

func (d *SimDisk) doReadDir(name string) ([]fs.DirEntry, error) {
	f := d.step()
	if f != nil && (f.Kind == "eio-readdir" || f.Kind == "vanish" || f.Kind == "eacces-open") {
		d.Fired.Inc(f.Kind)
		d.FaultLog = append(d.FaultLog, FaultRec{d.Ops, f.Kind, name})
		err := pathErr("readdir", name, faultErr(f))
		d.Lists = append(d.Lists, ListRec{Op: d.Ops, Dir: name, Err: err.Error()})
		d.log("readdir", "%s -> FAULT %s", name, f.Kind)
		return nil, err
	}
	if _, ok := d.files[name]; ok {
		err := pathErr("readdir", name, syscall.ENOTDIR)
		d.Lists = append(d.Lists, ListRec{Op: d.Ops, Dir: name, Err: err.Error()})
		return nil, err
	}
	if !d.isDir(name) {
		err := pathErr("readdir", name, fs.ErrNotExist)
		d.Lists = append(d.Lists, ListRec{Op: d.Ops, Dir: name, Err: err.Error()})
		d.log("readdir", "%s -> not exist", name)
		return nil, err
	}
	es := d.list(name)
	names := make([]string, len(es))
	for i, e := range es {
		names[i] = e.Name()
	}
	d.Lists = append(d.Lists, ListRec{Op: d.Ops, Dir: name, Names: names})
	d.log("readdir", "%s -> %v", name, names)
	return es, nil
}

// FS returns the fs.FS view selected by the Rich knob.
func (d *SimDisk) FS() fs.FS {
	if d.Rich {
		return richFS{d}
	}
	return openFS{d}
}

type openFS struct{ d *SimDisk }

func (o openFS) Open(name string) (fs.File, error) { return o.d.doOpen(name) }

type richFS struct{ d *SimDisk }

func (r richFS) Open(name string) (fs.File, error) { return r.d.doOpen(name) }
func (r richFS) ReadDir(name string) ([]fs.DirEntry, error) {
	if !fs.ValidPath(name) {
		return nil, pathErr("readdir", name, fs.ErrInvalid)
	}
	return r.d.doReadDir(name)
}
func (r richFS) ReadFile(name string) ([]byte, error) {
	f, err := r.d.doOpen(name)
	if err != nil {
		return nil, err
	}
	defer f.Close()
	return io.ReadAll(f)
}
func (r richFS) Stat(name string) (fs.FileInfo, error) {
	f := r.d.step()
	if !fs.ValidPath(name) {
		return nil, pathErr("stat", name, fs.ErrInvalid)
	}
	if f != nil && (f.Kind == "eio-open" || f.Kind == "eacces-open" || f.Kind == "vanish") {
		r.d.Fired.Inc(f.Kind)
		r.d.FaultLog = append(r.d.FaultLog, FaultRec{r.d.Ops, f.Kind, name})
		return nil, pathErr("stat", name, faultErr(f))
	}
	if b, ok := r.d.files[name]; ok {
		return dirEntry{name: baseName(name), size: int64(len(b))}, nil
	}
	if r.d.isDir(name) {
		return dirEntry{name: baseName(name), dir: true}, nil
	}
	return nil, pathErr("stat", name, fs.ErrNotExist)
}

func baseName(p string) string {
	if i := strings.LastIndexByte(p, '/'); i >= 0 {
		return p[i+1:]
	}
	return p
}

type simFile struct {
	d      *SimDisk
	path   string
	data   []byte
	off    int
	rec    int
	closed bool
}

func (f *simFile) Stat() (fs.FileInfo, error) {
	return dirEntry{name: baseName(f.path), size: int64(len(f.data))}, nil
}

func (f *simFile) Read(p []byte) (int, error) {
	flt := f.d.step()
	rec := &f.d.Reads[f.rec]
	if f.closed {
		return 0, fs.ErrClosed
	}
	if flt != nil && flt.Kind == "eio-read" {
		// deliver up to Arg further bytes, then fail
		f.d.Fired.Inc("eio-read")
		f.d.FaultLog = append(f.d.FaultLog, FaultRec{f.d.Ops, "eio-read", f.path})
		n := flt.Arg
		if n > len(f.data)-f.off {
			n = len(f.data) - f.off
		}
		if n > len(p) {
			n = len(p)
		}
		if n < 0 {
			n = 0
		}
		copy(p, f.data[f.off:f.off+n])
		rec.Data = append(rec.Data, f.data[f.off:f.off+n]...)
		f.off += n
		err := pathErr("read", f.path, syscall.EIO)
		rec.Err = err.Error()
		f.d.log("read", "%s -> FAULT eio-read after %d", f.path, f.off)
		return n, err
	}
	if f.off >= len(f.data) {
		rec.Complete = true
		return 0, io.EOF
	}
	n := len(f.data) - f.off
	if f.d.Chunk > 0 && n > f.d.Chunk {
		n = f.d.Chunk
		f.d.Fired.Inc("short-read")
	}
	if n > len(p) {
		n = len(p)
	}
	copy(p, f.data[f.off:f.off+n])
	rec.Data = append(rec.Data, f.data[f.off:f.off+n]...)
	f.off += n
	return n, nil
}

func (f *simFile) Close() error { f.closed = true; return nil }

type simDir struct {
	d    *SimDisk
	path string
	done bool
}

func (s *simDir) Stat() (fs.FileInfo, error) { return dirEntry{name: baseName(s.path), dir: true}, nil }
func (s *simDir) Read(p []byte) (int, error) {
	s.d.step()
	return 0, pathErr("read", s.path, syscall.EISDIR)
}
func (s *simDir) Close() error { return nil }
func (s *simDir) ReadDir(n int) ([]fs.DirEntry, error) {
	if s.done {
		if n > 0 {
			return nil, io.EOF
		}
		return nil, nil
	}
	s.done = true
	return s.d.doReadDir(s.path)
}

type dirEntry struct {
	name string
	dir  bool
	size int64
}

func (e dirEntry) Name() string { return e.name }
func (e dirEntry) IsDir() bool  { return e.dir }
func (e dirEntry) Type() fs.FileMode {
	if e.dir {
		return fs.ModeDir
	}
	return 0
}
func (e dirEntry) Info() (fs.FileInfo, error) { return e, nil }
func (e dirEntry) Size() int64                { return e.size }
func (e dirEntry) Mode() fs.FileMode {
	if e.dir {
		return fs.ModeDir | 0o755
	}
	return 0o644
}
func (e dirEntry) ModTime() time.Time { return time.Time{} }
func (e dirEntry) Sys() any           { return nil }

// IsNotExist reports whether an error text chain is a not-exist error.
func IsNotExist(err error) bool { return errors.Is(err, fs.ErrNotExist) }

// SimWriter records what is written to it and fails or short-writes at the
// planned write index (1-based).
type SimWriter struct {
	Name    string
	Buf     []byte
	Writes  int
	FailAt  int    // 0 = never
	Mode    string // "error" or "short"
	Fired   Counters
	H       *History
	MaxKeep int
}

var ErrSimWrite = errors.New("sim: write failed")

func (w *SimWriter) Write(p []byte) (int, error) {
	w.Writes++
	if w.FailAt != 0 && w.Writes >= w.FailAt {
		if w.Fired != nil {
			w.Fired.Inc("write-" + w.Mode)
		}
		if w.Mode == "short" && len(p) > 1 {
			w.keep(p[:len(p)/2])
			return len(p) / 2, io.ErrShortWrite
		}
		return 0, ErrSimWrite
	}
	w.keep(p)
	return len(p), nil
}

func (w *SimWriter) keep(p []byte) {
	max := w.MaxKeep
	if max == 0 {
		max = 1 << 20
	}
	if len(w.Buf)+len(p) > max {
		return
	}
	w.Buf = append(w.Buf, p...)
}

func (w *SimWriter) String() string { return string(w.Buf) }
