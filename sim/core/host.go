package core

import (
	"fmt"
	"runtime"
	"strings"

	"github.com/philhassey/goatlang"
)

// Host is the embedding program of a simulated run: it owns the VM, the
// simulated disk, stdout and clock, wraps every entry point (at any nesting
// depth) in a recover, arms the instruction budget for each top-level call and
// records invoke/return events.
type Host struct {
	VM     *goatlang.VM
	H      *History
	Disk   *SimDisk
	Stdout *SimWriter
	Stderr []string // what cli.live would print to stderr
	Clock  int64    // simulated time, ns
	Budget int64    // instructions per top-level entry-point call (<0 unlimited)

	Depth    int // entry points currently active
	MaxDepth int
	Yields   int
	OnYield  func(h *Host) // live-mode drain, run by builtin.__yield

	C           Counters
	Escapes     []string // panics that escaped an entry point
	EscapeSites []string // goatlang source position that raised each of them (not part of the history hash)
	BudgetHits  int
	rnd         *PRNG
	Args        []string
}

// NewHost builds a VM whose real-world natives are replaced by simulator-owned
// ones: time.Sleep (Yield + simulated clock), time.Now (simulated clock),
// math/rand.* (seeded), os.ReadFile/os.WriteFile (SimDisk), os.Args (fixed),
// builtin.__yield (the session's drain).
func NewHost(seed uint64, disk *SimDisk, hist *History, extra ...func(*goatlang.VM)) *Host {
	h := &Host{H: hist, Disk: disk, C: Counters{}, Budget: 200000, rnd: NewPRNG(Mix(seed, 0x72616e64))}
	hist.Now = &h.Clock
	h.Stdout = &SimWriter{Name: "stdout", Fired: h.C, H: hist}
	loaders := []func(*goatlang.VM){h.stubRealWorld}
	loaders = append(loaders, extra...)
	h.VM = goatlang.New(goatlang.WithStdout(h.Stdout), goatlang.WithLoaders(loaders...))
	return h
}

type simTime struct {
	goatlang.Object
	ms int64
}

func (t *simTime) GetAttr(k string) (res goatlang.Value) {
	if k == "UnixMilli" {
		res = goatlang.NewFunc(0, 1, func(vm *goatlang.VM, args []goatlang.Value) goatlang.Value {
			return goatlang.Int32(int32(t.ms))
		})
	}
	return res
}

func (h *Host) stubRealWorld(vm *goatlang.VM) {
	vm.Set("builtin.__yield", goatlang.NewFunc(0, 0, func(v *goatlang.VM) {
		h.Yields++
		if h.OnYield != nil {
			h.OnYield(h)
		}
	}))
	vm.Set("time.Sleep", goatlang.NewFunc(1, 0, func(v *goatlang.VM, args []goatlang.Value) {
		v.Yield()
		d := args[0].Float64()
		if !(d > 0) {
			d = 0
		}
		if d > 3.6e12 {
			d = 3.6e12
		}
		h.Clock += int64(d)
	}))
	vm.Set("time.Now", goatlang.NewFunc(0, 1, func(v *goatlang.VM, args []goatlang.Value) goatlang.Value {
		return goatlang.Wrap(&simTime{ms: h.Clock / 1e6})
	}))
	vm.Set("math/rand.Float64", goatlang.NewFunc(0, 1, func(v *goatlang.VM, args []goatlang.Value) goatlang.Value {
		return goatlang.Float64(float64(h.rnd.Uint64()>>11) / (1 << 53))
	}))
	vm.Set("math/rand.Int", goatlang.NewFunc(0, 1, func(v *goatlang.VM, args []goatlang.Value) goatlang.Value {
		return goatlang.Int(int(h.rnd.Uint64() >> 33))
	}))
	vm.Set("math/rand.Int31", goatlang.NewFunc(0, 1, func(v *goatlang.VM, args []goatlang.Value) goatlang.Value {
		return goatlang.Int32(int32(h.rnd.Uint64() >> 33))
	}))
	vm.Set("math/rand.Uint32", goatlang.NewFunc(0, 1, func(v *goatlang.VM, args []goatlang.Value) goatlang.Value {
		return goatlang.Uint32(uint32(h.rnd.Uint64() >> 32))
	}))
	intn := func(v *goatlang.VM, args []goatlang.Value) goatlang.Value {
		n := args[0].Int()
		if n <= 0 {
			panic("invalid argument to Intn") // as math/rand does
		}
		return goatlang.Int(h.rnd.Intn(n))
	}
	vm.Set("math/rand.Intn", goatlang.NewFunc(1, 1, intn))
	vm.Set("math/rand.Int31n", goatlang.NewFunc(1, 1, intn))
	vm.Set("math/rand.Seed", goatlang.NewFunc(1, 0, func(v *goatlang.VM, args []goatlang.Value) {
		h.rnd = NewPRNG(Mix(uint64(args[0].Float64())))
	}))
	argv := h.Args
	if argv == nil {
		argv = []string{"goat", "main"}
	}
	var av []goatlang.Value
	for _, a := range argv {
		av = append(av, goatlang.String(a))
	}
	vm.Set("os.Args", goatlang.NewSlice(goatlang.TypeString, av))
	vm.Set("os.ReadFile", goatlang.NewFunc(1, 2, func(v *goatlang.VM, args []goatlang.Value) []goatlang.Value {
		name := strings.TrimPrefix(args[0].String(), "/")
		b, ok := h.Disk.Content(name)
		if !ok {
			return []goatlang.Value{goatlang.Nil(), goatlang.Error(fmt.Errorf("open %s: no such file or directory", name))}
		}
		res := make([]goatlang.Value, len(b))
		for i, c := range b {
			res[i] = goatlang.Byte(c)
		}
		return []goatlang.Value{goatlang.NewSlice(goatlang.TypeUint8, res), goatlang.Nil()}
	}))
	vm.Set("os.WriteFile", goatlang.NewFunc(3, 1, func(v *goatlang.VM, args []goatlang.Value) goatlang.Value {
		// accepted and dropped: a damaged script must never write anywhere real,
		// and must not edit the simulated tree behind the plan's back either
		h.C.Inc("os.WriteFile")
		return goatlang.Nil()
	}))
}

// MaxBudget is the largest instruction budget a top-level call may get: a
// script call costs at least one instruction and about 1.3 KB of Go stack, the
// Go runtime aborts the process at 1 GB of stack, and that cannot be recovered.
const MaxBudget = 200000

// ErrEscaped is returned by the wrappers when a Go panic escaped an entry point.
type ErrEscaped struct{ Val string }

func (e *ErrEscaped) Error() string { return "ESCAPED PANIC: " + e.Val }

func (h *Host) enter(kind, what string) {
	if h.Depth == 0 {
		b := h.Budget
		if b < 0 || b > MaxBudget {
			b = MaxBudget
		}
		goatlang.VerifSetBudget(b)
	}
	h.Depth++
	if h.Depth > h.MaxDepth {
		h.MaxDepth = h.Depth
	}
	h.C.Inc(fmt.Sprintf("entry_depth_%d", h.Depth-1))
	h.H.Add("host", "invoke "+kind, what)
}

func (h *Host) leave(kind string, vals []goatlang.Value, err *error, r any) {
	h.Depth--
	if r != nil {
		s := fmt.Sprint(r)
		h.Escapes = append(h.Escapes, kind+": "+s)
		h.EscapeSites = append(h.EscapeSites, panicSite())
		*err = &ErrEscaped{Val: s}
	}
	if h.Depth == 0 {
		goatlang.VerifSetBudget(-1)
	}
	if *err != nil {
		if strings.Contains((*err).Error(), goatlang.VerifBudgetPanic) {
			h.BudgetHits++
		}
		h.H.Add("host", "return "+kind, "error: "+(*err).Error())
		return
	}
	h.H.Add("host", "return "+kind, ValuesString(vals))
}

// ValuesString renders returned values without ever panicking and without
// depending on map iteration order: containers are summarised.
func ValuesString(vals []goatlang.Value) string {
	parts := make([]string, len(vals))
	for i, v := range vals {
		parts[i] = ValueString(v)
	}
	return "[" + strings.Join(parts, ", ") + "]"
}

func ValueString(v goatlang.Value) string { return valueString(v, 0) }

func valueString(v goatlang.Value, depth int) (s string) {
	if depth > 3 {
		return "..." // script values can be cyclic (x[1] = x[1:2])
	}
	defer func() {
		if r := recover(); r != nil {
			s = fmt.Sprintf("<unprintable type %d>", v.Type())
		}
	}()
	switch v.Type() {
	case goatlang.TypeMap:
		return fmt.Sprintf("map(len=%d)", v.Len())
	case goatlang.TypeStruct, goatlang.TypeObject:
		return fmt.Sprintf("ref(type=%d nil=%v)", v.Type(), v.IsNil())
	case goatlang.TypeFunc:
		return "func"
	case goatlang.TypeSlice:
		if v.Len() > 16 {
			return fmt.Sprintf("slice(len=%d)", v.Len())
		}
		var ps []string
		next := v.Range()
		for {
			_, e, ok := next()
			if !ok {
				break
			}
			ps = append(ps, valueString(e, depth+1))
		}
		return "[" + strings.Join(ps, " ") + "]"
	case goatlang.TypeString:
		return fmt.Sprintf("%q", v.String())
	}
	return fmt.Sprintf("%d:%s", v.Type(), v.String())
}

func (h *Host) Load(arg string, opts ...goatlang.RunOption) (err error) {
	h.enter("load", arg)
	defer func() { h.leave("load", nil, &err, recover()) }()
	return h.VM.Load(h.Disk.FS(), arg, opts...)
}

func (h *Host) Eval(fname, src string, opts ...goatlang.RunOption) (rets []goatlang.Value, err error) {
	h.enter("eval", fname)
	defer func() { h.leave("eval", rets, &err, recover()) }()
	return h.VM.Eval(h.Disk.FS(), fname, src, opts...)
}

func (h *Host) Call(name string, xRets int, params ...goatlang.Value) (rets []goatlang.Value, err error) {
	h.enter("call", fmt.Sprintf("%s xRets=%d n=%d", name, xRets, len(params)))
	defer func() { h.leave("call", rets, &err, recover()) }()
	return h.VM.Call(name, xRets, params...)
}

func (h *Host) Func(fn goatlang.Value, xRets int, params ...goatlang.Value) (rets []goatlang.Value, err error) {
	h.enter("func", fmt.Sprintf("xRets=%d n=%d", xRets, len(params)))
	defer func() { h.leave("func", rets, &err, recover()) }()
	return h.VM.Func(fn, xRets, params...)
}

// IsBudget reports whether err is the excepted resource exhaustion.
func IsBudget(err error) bool {
	return err != nil && strings.Contains(err.Error(), goatlang.VerifBudgetPanic)
}

// panicSite names the innermost goatlang frames below the panic, e.g.
// "load.go:82 loadImports < load.go:111 loadPackage".
func panicSite() string {
	pcs := make([]uintptr, 64)
	n := runtime.Callers(3, pcs)
	frames := runtime.CallersFrames(pcs[:n])
	var out []string
	seenPanic := false
	for {
		f, more := frames.Next()
		if strings.HasSuffix(f.Function, "runtime.gopanic") || strings.Contains(f.Function, "runtime.panic") || strings.Contains(f.Function, "runtime.goPanic") || strings.Contains(f.Function, "runtime.sigpanic") {
			seenPanic = true
			out = out[:0]
		} else if seenPanic && len(out) == 0 && strings.HasPrefix(f.Function, "goatsim/core.") {
			// the simulator's own seam code panicked: a harness fault, never goatlang's
			return "HARNESS " + f.Function
		} else if seenPanic && strings.Contains(f.Function, "philhassey/goatlang.") {
			file := f.File
			if i := strings.LastIndexByte(file, '/'); i >= 0 {
				file = file[i+1:]
			}
			fn := f.Function[strings.LastIndexByte(f.Function, '/')+1:]
			out = append(out, fmt.Sprintf("%s:%d %s", file, f.Line, strings.TrimPrefix(fn, "goatlang.")))
			if len(out) >= 4 {
				break
			}
		}
		if !more {
			break
		}
	}
	return strings.Join(out, " < ")
}
