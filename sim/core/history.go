package core

import (
	"encoding/base64"
	"encoding/json"
	"fmt"
	"sort"
	"strings"
	"unicode/utf8"
)

// Event is one entry of the totally ordered history of a simulated run.
type Event struct {
	Seq   int    `json:"seq"`
	T     int64  `json:"t"` // simulated time, ns
	Actor string `json:"actor"`
	Kind  string `json:"kind"`
	Data  string `json:"data,omitempty"`
}

func (e Event) String() string {
	return fmt.Sprintf("#%d t=%d %s %s %s", e.Seq, e.T, e.Actor, e.Kind, e.Data)
}

// History is the recorded event log. Hash covers every event ever added, also
// those dropped from Events once Cap is reached.
type History struct {
	Events []Event
	Cap    int
	Keep   bool
	n      int
	h      uint64
	Now    *int64 // simulated clock to stamp events with (may be nil)
}

func NewHistory(keep bool) *History {
	return &History{Keep: keep, Cap: 20000, h: 14695981039346656037}
}

func (h *History) Add(actor, kind, data string) {
	var t int64
	if h.Now != nil {
		t = *h.Now
	}
	h.n++
	x := h.h
	for _, s := range [...]string{actor, "\x00", kind, "\x00", data, "\x01"} {
		for i := 0; i < len(s); i++ {
			x ^= uint64(s[i])
			x *= 1099511628211
		}
	}
	x ^= uint64(t)
	x *= 1099511628211
	h.h = x
	if h.Keep && len(h.Events) < h.Cap {
		h.Events = append(h.Events, Event{Seq: h.n, T: t, Actor: actor, Kind: kind, Data: data})
	}
}

func (h *History) Addf(actor, kind, format string, args ...any) {
	if !h.Keep {
		// still hash the formatted text: determinism checks compare hashes
		h.Add(actor, kind, fmt.Sprintf(format, args...))
		return
	}
	h.Add(actor, kind, fmt.Sprintf(format, args...))
}

func (h *History) Len() int     { return h.n }
func (h *History) Hash() string { return fmt.Sprintf("%016x", h.h) }

// Tail returns the last n kept events as text lines.
func (h *History) Tail(n int) []string {
	ev := h.Events
	if len(ev) > n {
		ev = ev[len(ev)-n:]
	}
	out := make([]string, len(ev))
	for i, e := range ev {
		out[i] = e.String()
	}
	return out
}

// Bytes is a byte string that survives JSON exactly: valid UTF-8 is written as
// a readable string, anything else as base64.
type Bytes []byte

func (b Bytes) MarshalJSON() ([]byte, error) {
	if utf8.Valid(b) && !strings.ContainsRune(string(b), utf8.RuneError) {
		return json.Marshal(map[string]string{"s": string(b)})
	}
	return json.Marshal(map[string]string{"b64": base64.StdEncoding.EncodeToString(b)})
}

func (b *Bytes) UnmarshalJSON(in []byte) error {
	var m map[string]string
	if err := json.Unmarshal(in, &m); err != nil {
		return err
	}
	if s, ok := m["b64"]; ok {
		d, err := base64.StdEncoding.DecodeString(s)
		if err != nil {
			return err
		}
		*b = d
		return nil
	}
	*b = []byte(m["s"])
	return nil
}

// Counters is a deterministic string->count map.
type Counters map[string]int64

func (c Counters) Inc(k string)          { c[k]++ }
func (c Counters) Add(k string, n int64) { c[k] += n }
func (c Counters) Merge(o Counters) {
	for k, v := range o {
		c[k] += v
	}
}

// Prefixed returns a copy with every key prefixed.
func (c Counters) Prefixed(p string) Counters {
	o := Counters{}
	for k, v := range c {
		o[p+k] = v
	}
	return o
}
func (c Counters) Keys() []string {
	ks := make([]string, 0, len(c))
	for k := range c {
		ks = append(ks, k)
	}
	sort.Strings(ks)
	return ks
}

// Violation is one broken oracle rule. (Property, Rule, KeyKind) is the
// signature used while minimising and when matching known findings.
type Violation struct {
	Property string `json:"property"`
	Rule     string `json:"rule"`
	KeyKind  string `json:"key_kind"`
	Detail   string `json:"detail"`
}

func (v Violation) Sig() string { return v.Property + "|" + v.Rule + "|" + v.KeyKind }

// Result is the outcome of executing one plan.
type Result struct {
	Violations []Violation
	Hash       string
	Abstract   string // abstract history: the engine's stated distinctness measure
	Nontrivial bool   // at least one fault fired or one event landed at depth >= 1
	Counters   Counters
	SimTime    int64
	Steps      int
	History    *History
}

func (r *Result) Fail(prop, rule, keyKind, format string, args ...any) {
	if len(r.Violations) >= 8 {
		return
	}
	r.Violations = append(r.Violations, Violation{Property: prop, Rule: rule, KeyKind: keyKind, Detail: fmt.Sprintf(format, args...)})
}

func (r *Result) OK() bool { return len(r.Violations) == 0 }
