package core

import (
	"bufio"
	"encoding/json"
	"fmt"
	"os"
	"runtime"
	"runtime/debug"
	"sort"
	"strconv"
	"sync/atomic"
	"syscall"
	"time"
)

// WorkerOpts selects the slice of work one worker process performs.
type WorkerOpts struct {
	Prop        string
	Tier        string
	Seed        uint64
	Shard       int
	Of          int
	From, To    int // unit range [From,To); To<=0 means all
	Careful     bool
	CarefulFile string // where careful mode saves each plan before executing it
	Hashes      bool
	WorkDir     string
	ReplayDir   string
	Deadline    time.Duration // wall-clock cap; 0 = none
	MemLimit    uint64
}

// Msg is one line of the worker -> driver protocol.
type Msg struct {
	Type   string   `json:"type"` // progress | begin | hash | violation | hang | summary
	Unit   int      `json:"unit"`
	Sub    int      `json:"sub,omitempty"`
	Hash   string   `json:"hash,omitempty"`
	Replay string   `json:"replay,omitempty"`
	Sig    string   `json:"sig,omitempty"`
	Detail string   `json:"detail,omitempty"`
	Sum    *Summary `json:"summary,omitempty"`
}

// Summary is what a worker measured.
type Summary struct {
	Units       int               `json:"units"`
	Evaluations int64             `json:"evaluations"`
	Nontrivial  int64             `json:"nontrivial"`
	Distinct    []uint64          `json:"distinct"` // hashes of abstract histories of non-trivial runs
	DistinctCap bool              `json:"distinct_capped"`
	Counters    Counters          `json:"counters"`
	SimTime     int64             `json:"sim_time_ns"`
	Steps       int64             `json:"steps"`
	Violations  int               `json:"violations"`
	Sigs        map[string]int    `json:"sigs"`
	Samples     []json.RawMessage `json:"samples"`
	Truncated   bool              `json:"truncated_by_deadline"`
	WallS       float64           `json:"wall_s"`
}

const distinctCap = 400000

type hangState struct {
	start atomic.Int64 // unix nanos of the current exec, 0 when idle
	unit  atomic.Int64
	sub   atomic.Int64
}

// RunWorker executes the selected units and streams protocol lines to stdout.
func RunWorker(o WorkerOpts) int {
	e := Lookup(o.Prop)
	if e == nil {
		fmt.Fprintf(os.Stderr, "unknown property %q\n", o.Prop)
		return 2
	}
	// one thread of control per worker; the second P only serves the GC and the watchdog
	procs := 2
	if v, err := strconv.Atoi(os.Getenv("GOATSIM_PROCS")); err == nil && v > 0 {
		procs = v // determinism self-test: vary the number of Ps
	}
	runtime.GOMAXPROCS(procs)
	debug.SetGCPercent(400)
	debug.SetMemoryLimit(1 << 30) // collect eagerly long before the address-space limit is near
	if o.MemLimit > 0 {
		lim := syscall.Rlimit{Cur: o.MemLimit, Max: o.MemLimit}
		_ = syscall.Setrlimit(syscall.RLIMIT_AS, &lim)
	}
	out := bufio.NewWriterSize(os.Stdout, 1<<16)
	emit := func(m Msg) {
		b, _ := json.Marshal(m)
		out.Write(b)
		out.WriteByte('\n')
		if o.Careful || m.Type != "hash" {
			out.Flush()
		}
	}
	sum := &Summary{Counters: Counters{}, Sigs: map[string]int{}}
	distinct := map[uint64]struct{}{}
	start := time.Now()
	lastProgress := start
	ticks := 0
	var curPlan atomic.Value
	hs := &hangState{}
	go watchdog(hs, &curPlan, o, out)

	total := e.Units(o.Tier)
	from, to := o.From, o.To
	if to <= 0 || to > total {
		to = total
	}
	minimised := 0
	for u := from; u < to; u++ {
		if o.Of > 1 && u%o.Of != o.Shard {
			continue
		}
		if o.Deadline > 0 && time.Since(start) > o.Deadline {
			sum.Truncated = true
			break
		}
		if now := time.Now(); now.Sub(lastProgress) > 250*time.Millisecond {
			// a checkpoint: if this process dies, what it measured so far is not lost
			ticks++
			cp := *sum
			cp.Distinct = nil
			if ticks%20 == 0 {
				for k := range distinct {
					cp.Distinct = append(cp.Distinct, k)
				}
			}
			cp.WallS = time.Since(start).Seconds()
			emit(Msg{Type: "progress", Unit: u, Sum: &cp})
			lastProgress = now
		}
		sub := 0
		exec := func(plan any) *Result {
			mySub := sub
			sub++
			if o.Careful {
				os.WriteFile(o.CarefulFile, planJSON(plan), 0o644)
				emit(Msg{Type: "begin", Unit: u, Sub: mySub})
			}
			curPlan.Store(&plan)
			hs.unit.Store(int64(u))
			hs.sub.Store(int64(mySub))
			hs.start.Store(time.Now().UnixNano())
			r := SafeExecute(e, plan, false)
			hs.start.Store(0)
			sum.Evaluations++
			sum.SimTime += r.SimTime
			sum.Steps += int64(r.Steps)
			sum.Counters.Merge(r.Counters)
			if r.Nontrivial {
				sum.Nontrivial++
				if len(distinct) < distinctCap {
					distinct[HashString(r.Abstract)] = struct{}{}
				} else {
					sum.DistinctCap = true
				}
			}
			if o.Hashes {
				emit(Msg{Type: "hash", Unit: u, Sub: mySub, Hash: r.Hash})
			}
			if len(sum.Samples) < 3 && r.Nontrivial && (u/max(o.Of, 1))%7 == 0 {
				sum.Samples = append(sum.Samples, sampleOf(e, plan))
			}
			if !r.OK() {
				sum.Violations++
				sig := r.Violations[0].Sig()
				sum.Sigs[sig]++
				if sum.Sigs[sig] == 1 && minimised < 4 {
					minimised++
					// the unminimised replay is on record before minimisation starts: a worker that dies
					// while minimising (memory, watchdog) must not take the violation with it
					pre := func(path, detail string) {
						emit(Msg{Type: "violation", Unit: u, Sub: mySub, Sig: sig, Replay: path, Detail: detail})
						out.Flush()
					}
					path, detail := reportViolation(e, o, u, mySub, plan, r, pre)
					emit(Msg{Type: "violation", Unit: u, Sub: mySub, Sig: sig, Replay: path, Detail: detail})
				}
			}
			return r
		}
		e.RunUnit(o.Seed, o.Tier, u, exec)
		sum.Units++
	}
	if len(sum.Samples) == 0 {
		// make sure evidence always carries at least one written-out case
		e.RunUnit(o.Seed, o.Tier, from+o.Shard, func(plan any) *Result {
			if len(sum.Samples) < 1 {
				sum.Samples = append(sum.Samples, sampleOf(e, plan))
			}
			return SafeExecute(e, plan, false)
		})
	}
	for k := range distinct {
		sum.Distinct = append(sum.Distinct, k)
	}
	sort.Slice(sum.Distinct, func(i, j int) bool { return sum.Distinct[i] < sum.Distinct[j] })
	sum.WallS = time.Since(start).Seconds()
	emit(Msg{Type: "summary", Sum: sum})
	out.Flush()
	return 0
}

func max(a, b int) int {
	if a > b {
		return a
	}
	return b
}

// sampleOf writes a case out: the plan plus the head of the history it produces.
func sampleOf(e Engine, plan any) json.RawMessage {
	r := SafeExecute(e, RoundTrip(e, plan), true)
	var hist []string
	if r.History != nil {
		for i, ev := range r.History.Events {
			if i >= 40 {
				hist = append(hist, fmt.Sprintf("... %d more events", r.History.Len()-40))
				break
			}
			hist = append(hist, ev.String())
		}
	}
	pj := planJSON(plan)
	if len(pj) > 6000 {
		pj, _ = json.Marshal(map[string]any{"truncated_plan_bytes": len(pj), "head": string(pj[:3000])})
	}
	b, _ := json.Marshal(map[string]any{"plan": json.RawMessage(pj), "history_head": hist, "history_hash": r.Hash, "abstract": r.Abstract})
	return b
}

func reportViolation(e Engine, o WorkerOpts, u, sub int, plan any, r *Result, pre func(path, detail string)) (string, string) {
	sig := r.Violations[0].Sig()
	// what is executed from here on is what a replay file holds
	rt := RoundTrip(e, plan)
	r2 := SafeExecute(e, rt, false)
	if !hasSig(r2, sig) {
		// the plan does not reproduce through its own serialisation: harness bug
		return "", "NONDETERMINISTIC: violation did not reproduce from its serialised plan: " + r.Violations[0].Detail
	}
	if pre != nil {
		rp0 := &Replay{Property: e.Property(), Engine: e.Name(), Seed: o.Seed, Tier: o.Tier, Unit: u, Sub: sub,
			Violation: r.Violations[0], Hash: r2.Hash, Plan: planJSON(rt)}
		for _, x := range r2.Violations {
			if x.Sig() == sig {
				rp0.Violation = x
				break
			}
		}
		if path, err := WriteReplay(o.ReplayDir, rp0); err == nil {
			pre(path, rp0.Violation.Rule+": "+rp0.Violation.Detail)
		}
	}
	min, st := Minimise(e, rt, sig, 3000)
	rf := SafeExecute(e, min, true)
	v := r.Violations[0]
	for _, x := range rf.Violations {
		if x.Sig() == sig {
			v = x
			break
		}
	}
	rp := &Replay{Property: e.Property(), Engine: e.Name(), Seed: o.Seed, Tier: o.Tier, Unit: u, Sub: sub,
		Violation: v, Hash: rf.Hash, Shrunk: st, Plan: planJSON(min)}
	for _, x := range rf.Violations {
		if x.Sig() != sig {
			rp.Others = append(rp.Others, x)
		}
	}
	if rf.History != nil {
		rp.Tail = rf.History.Tail(60)
	}
	path, err := WriteReplay(o.ReplayDir, rp)
	if err != nil {
		return "", "cannot write replay: " + err.Error()
	}
	return path, v.Rule + ": " + v.Detail
}

const hangLimit = 10 * time.Second

// hangLimitFor: the watchdog limit of this process (GOATSIM_HANG seconds overrides it: the
// triage gives a stalled plan a second, much longer chance before calling it wedged).
func hangLimitFor() time.Duration {
	if v, err := strconv.Atoi(os.Getenv("GOATSIM_HANG")); err == nil && v > 0 {
		return time.Duration(v) * time.Second
	}
	return hangLimit
}

// watchdog is the only other goroutine of a worker. It never touches the
// simulation; it only notices that one plan has been executing for longer
// than hangLimit, saves that plan and ends the process.
func watchdog(hs *hangState, cur *atomic.Value, o WorkerOpts, out *bufio.Writer) {
	for {
		time.Sleep(500 * time.Millisecond)
		st := hs.start.Load()
		if st == 0 || time.Since(time.Unix(0, st)) < hangLimitFor() {
			continue
		}
		p := cur.Load().(*any)
		path := fmt.Sprintf("%s/hang-%s-%d-%d.json", o.WorkDir, o.Prop, hs.unit.Load(), hs.sub.Load())
		os.WriteFile(path, planJSON(*p), 0o644)
		b, _ := json.Marshal(Msg{Type: "hang", Unit: int(hs.unit.Load()), Sub: int(hs.sub.Load()), Replay: path})
		os.Stdout.Write(append(b, '\n'))
		os.Exit(3)
	}
}
