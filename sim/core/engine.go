package core

import (
	"encoding/json"
	"fmt"
	"os"
	"path/filepath"
	"sort"
	"strings"
)

// Engine is one property's simulation: it generates plans from a seed, executes
// a plan against the real goatlang code and judges the recorded history.
//
// Work is divided into units (usually one sampled world per unit). RunUnit
// executes every plan of a unit through exec; it sees each Result, so that a
// clean run's counters can bound the single-fault sweep that follows.
type Engine interface {
	Property() string
	Name() string
	Units(tier string) int
	RunUnit(seed uint64, tier string, unit int, exec func(plan any) *Result)
	NewPlan() any
	Execute(plan any, keep bool) *Result
	// Shrink proposes simpler plans, most aggressive first, lazily.
	Shrink(plan any) []func() any
	Describe() EngineInfo
}

type EngineInfo struct {
	Rule       string   // how cases are generated and what makes one distinct / non-trivial
	Level      string   // exploration | fault_enumeration
	Real       []string // components running real code
	Stubs      []string // simulator-owned components
	Assumes    []string
	ProbesWant []string // probes that must be non-zero; reported when stuck
}

var registry = map[string]Engine{}

func Register(e Engine) { registry[e.Property()] = e }
func Lookup(id string) Engine {
	return registry[id]
}
func Engines() []string {
	var ids []string
	for k := range registry {
		ids = append(ids, k)
	}
	sort.Strings(ids)
	return ids
}

// Replay is the self-contained file written for a violation.
type Replay struct {
	Property  string          `json:"property"`
	Engine    string          `json:"engine"`
	Seed      uint64          `json:"seed"`
	Tier      string          `json:"tier"`
	Unit      int             `json:"unit"`
	Sub       int             `json:"sub"`
	Violation Violation       `json:"violation"`
	Others    []Violation     `json:"other_violations,omitempty"`
	Hash      string          `json:"history_hash"`
	Shrunk    ShrinkStats     `json:"minimisation"`
	Plan      json.RawMessage `json:"plan"`
	Tail      []string        `json:"history_tail,omitempty"`
}

type ShrinkStats struct {
	Candidates int `json:"candidates_tried"`
	Accepted   int `json:"accepted"`
	SizeBefore int `json:"plan_bytes_before"`
	SizeAfter  int `json:"plan_bytes_after"`
}

func planJSON(p any) []byte {
	b, err := json.Marshal(p)
	if err != nil {
		panic(fmt.Sprintf("plan not serialisable: %v", err))
	}
	return b
}

// RoundTrip re-creates a plan through its JSON form, so that what is executed
// is exactly what a replay file would hold.
func RoundTrip(e Engine, p any) any {
	q := e.NewPlan()
	if err := json.Unmarshal(planJSON(p), q); err != nil {
		panic(fmt.Sprintf("plan round trip: %v", err))
	}
	return q
}

// Minimise shrinks a failing plan while the same signature keeps failing.
func Minimise(e Engine, plan any, sig string, maxCand int) (any, ShrinkStats) {
	st := ShrinkStats{SizeBefore: len(planJSON(plan))}
	cur := plan
	for progress := true; progress && st.Candidates < maxCand; {
		progress = false
		for _, mk := range e.Shrink(cur) {
			if st.Candidates >= maxCand {
				break
			}
			st.Candidates++
			cand := RoundTrip(e, mk())
			r := SafeExecute(e, cand, false)
			if hasSig(r, sig) {
				cur = cand
				st.Accepted++
				progress = true
				break
			}
		}
	}
	st.SizeAfter = len(planJSON(cur))
	return cur, st
}

func hasSig(r *Result, sig string) bool {
	for _, v := range r.Violations {
		if v.Sig() == sig {
			return true
		}
	}
	return false
}

// SafeExecute runs a plan; a panic inside the harness itself (not inside an
// entry point, those are caught by Host) is reported as a harness fault.
func SafeExecute(e Engine, plan any, keep bool) (res *Result) {
	defer func() {
		if r := recover(); r != nil {
			res = &Result{Counters: Counters{}}
			res.Fail("HARNESS", "panic", "harness", "%v", r)
		}
	}()
	return e.Execute(plan, keep)
}

// WriteReplay stores a replay file and returns its path.
func WriteReplay(dir string, rp *Replay) (string, error) {
	if err := os.MkdirAll(dir, 0o755); err != nil {
		return "", err
	}
	name := fmt.Sprintf("%s-%d-%d-%d-%s.json", rp.Property, rp.Seed, rp.Unit, rp.Sub, sanitize(rp.Violation.Rule))
	path := filepath.Join(dir, name)
	b, err := json.MarshalIndent(rp, "", " ")
	if err != nil {
		return "", err
	}
	return path, os.WriteFile(path, b, 0o644)
}

func sanitize(s string) string {
	return strings.Map(func(r rune) rune {
		if r >= 'a' && r <= 'z' || r >= 'A' && r <= 'Z' || r >= '0' && r <= '9' || r == '-' {
			return r
		}
		return '_'
	}, s)
}

func LoadReplay(path string) (*Replay, error) {
	b, err := os.ReadFile(path)
	if err != nil {
		return nil, err
	}
	var rp Replay
	if err := json.Unmarshal(b, &rp); err != nil {
		return nil, err
	}
	return &rp, nil
}

// Helpers for Shrink implementations -----------------------------------------

// DropChunks proposes copies of xs with chunks removed: halves, quarters, ...,
// single elements.
func DropChunks[T any](xs []T, keepMin int) [][]T {
	var out [][]T
	n := len(xs)
	if n <= keepMin {
		return nil
	}
	for size := n; size >= 1; size /= 2 {
		for start := 0; start < n; start += size {
			end := start + size
			if end > n {
				end = n
			}
			if n-(end-start) < keepMin {
				continue
			}
			c := make([]T, 0, n-(end-start))
			c = append(c, xs[:start]...)
			c = append(c, xs[end:]...)
			out = append(out, c)
		}
		if size == 1 {
			break
		}
	}
	return out
}

// ShrinkInts proposes smaller values for n (towards lo).
func ShrinkInts(n, lo int) []int {
	var out []int
	if n <= lo {
		return nil
	}
	out = append(out, lo)
	if m := (n + lo) / 2; m != lo && m != n {
		out = append(out, m)
	}
	if n-1 != lo {
		out = append(out, n-1)
	}
	return out
}

// CloneJSON deep-copies a plan through JSON.
func CloneJSON[T any](p *T) *T {
	var q T
	if err := json.Unmarshal(planJSON(p), &q); err != nil {
		panic(err)
	}
	return &q
}
