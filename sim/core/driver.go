package core

import (
	"bufio"
	"bytes"
	"encoding/json"
	"fmt"
	"os"
	"os/exec"
	"path/filepath"
	"regexp"
	"runtime"
	"sort"
	"strconv"
	"strings"
	"sync"
	"syscall"
	"time"
)

// DriverOpts configures one check run.
type DriverOpts struct {
	Prop     string
	Tier     string
	Seed     uint64
	VerifDir string
	Workers  int
	Deadline time.Duration
	Hashes   string // when set: write "unit sub hash" lines to this file (determinism self-test)
	NoEvid   bool
	To       int // run only units [0,To) (self-tests); 0 = all
}

type workerRun struct {
	checkpoint *Summary
	shard      int
	lastUnit   int
	sum        *Summary
	viol       []Msg
	hang       *Msg
	err        error
	stderr     string
	hashes     []string
}

func spawnWorker(self string, o DriverOpts, args []string, wr *workerRun) {
	cmd := exec.Command(self, append([]string{"worker"}, args...)...)
	var errb bytes.Buffer
	cmd.Stderr = &errb
	pipe, err := cmd.StdoutPipe()
	if err != nil {
		wr.err = err
		return
	}
	if err := cmd.Start(); err != nil {
		wr.err = err
		return
	}
	sc := bufio.NewScanner(pipe)
	sc.Buffer(make([]byte, 1<<20), 1<<28)
	for sc.Scan() {
		var m Msg
		if json.Unmarshal(sc.Bytes(), &m) != nil {
			continue
		}
		switch m.Type {
		case "progress", "begin":
			wr.lastUnit = m.Unit
			if m.Sum != nil {
				if m.Sum.Distinct == nil && wr.checkpoint != nil {
					m.Sum.Distinct = wr.checkpoint.Distinct
				}
				wr.checkpoint = m.Sum
			}
			if m.Type == "begin" {
				wr.hashes = append(wr.hashes[:0], fmt.Sprintf("%d %d", m.Unit, m.Sub))
			}
		case "hash":
			wr.hashes = append(wr.hashes, fmt.Sprintf("%d %d %s", m.Unit, m.Sub, m.Hash))
		case "violation":
			wr.viol = append(wr.viol, m)
		case "hang":
			mm := m
			wr.hang = &mm
		case "summary":
			wr.sum = m.Sum
		}
	}
	wr.err = cmd.Wait()
	s := errb.String()
	if len(s) > 4000 {
		s = s[:2000] + "\n...\n" + s[len(s)-2000:]
	}
	wr.stderr = s
}

// Finding is one entry of known_findings.json.
type Finding struct {
	Property    string `json:"property"`
	Rule        string `json:"rule"`
	Status      string `json:"status"` // known | fixed
	Commit      string `json:"commit,omitempty"`
	DetailMatch string `json:"detail_match,omitempty"` // regexp on the violation detail
	PlanMatch   string `json:"plan_match,omitempty"`   // regexp on the minimised plan JSON
	Text        string `json:"text"`
}

func loadFindings(dir string) []Finding {
	b, err := os.ReadFile(filepath.Join(dir, "known_findings.json"))
	if err != nil {
		return nil
	}
	var f struct {
		Findings []Finding `json:"findings"`
	}
	if json.Unmarshal(b, &f) != nil {
		return nil
	}
	return f.Findings
}

func matchFinding(fs []Finding, rp *Replay) *Finding {
	for i := range fs {
		f := &fs[i]
		if f.Status != "known" || f.Property != rp.Property || f.Rule != rp.Violation.Rule {
			continue
		}
		if f.DetailMatch == "" && f.PlanMatch == "" {
			continue // a finding must identify the specific failing input
		}
		if f.DetailMatch != "" {
			if ok, _ := regexp.MatchString(f.DetailMatch, rp.Violation.Detail); !ok {
				continue
			}
		}
		if f.PlanMatch != "" {
			if ok, _ := regexp.Match(f.PlanMatch, rp.Plan); !ok {
				continue
			}
		}
		return f
	}
	return nil
}

// RunDriver shards the units of one check over worker processes, merges what
// they measured, applies known findings, prints the verdict lines and writes
// the evidence file. Exit code: 0 held, 1 violation, 2 infrastructure trouble.
func RunDriver(o DriverOpts) int {
	start := time.Now()
	e := Lookup(o.Prop)
	if e == nil {
		fmt.Fprintf(os.Stderr, "unknown property %q (have %v)\n", o.Prop, Engines())
		return 2
	}
	self, err := os.Executable()
	if err != nil {
		fmt.Fprintln(os.Stderr, err)
		return 2
	}
	n := o.Workers
	if n <= 0 {
		n = runtime.NumCPU()
		if n > 16 {
			n = 16
		}
	}
	units := e.Units(o.Tier)
	if o.To > 0 && o.To < units {
		units = o.To
	}
	if units < n {
		n = units
	}
	work := filepath.Join(o.VerifDir, ".work", fmt.Sprintf("%s-%s-%d", o.Prop, o.Tier, os.Getpid()))
	if err := os.MkdirAll(work, 0o755); err != nil {
		fmt.Fprintln(os.Stderr, err)
		return 2
	}
	defer os.RemoveAll(work)
	replayDir := filepath.Join(o.VerifDir, "replays")
	fmt.Printf("goatsim: property=%s engine=%s tier=%s VERIF_SEED=%d units=%d workers=%d\n", o.Prop, e.Name(), o.Tier, o.Seed, units, n)

	base := []string{"--prop", o.Prop, "--tier", o.Tier, "--seed", fmt.Sprint(o.Seed), "--work", work, "--replays", replayDir,
		"--deadline", fmt.Sprint(int(o.Deadline.Seconds())), "--to", fmt.Sprint(units)}
	if o.Hashes != "" {
		base = append(base, "--hashes")
	}
	// one goroutine per shard: run a worker; if it dies or hangs, find the exact plan in a fresh
	// careful process, classify it, and carry on with the rest of the shard in a new worker
	var mu sync.Mutex
	var runs []*workerRun
	infra := 0
	var extraViol []Msg
	excepted := Counters{}
	triages := 0
	var wg sync.WaitGroup
	// units that reproduce listed known findings get a process each, beside the regular shards
	canon := 0
	if ce, ok := e.(interface{ CanonicalUnits() int }); ok {
		canon = ce.CanonicalUnits()
	}
	for i := 0; i < n+canon; i++ {
		wg.Add(1)
		go func(shard int) {
			defer wg.Done()
			from := canon
			sel := []string{"--shard", fmt.Sprint(shard), "--of", fmt.Sprint(n)}
			if shard >= n { // a canonical unit on its own
				from = shard - n
				sel = []string{"--shard", "0", "--of", "1", "--to", fmt.Sprint(from + 1)}
			}
			for attempt := 0; attempt < 40; attempt++ {
				wr := &workerRun{shard: shard, lastUnit: from}
				spawnWorker(self, o, append(append(append([]string{}, base...), sel...), "--from", fmt.Sprint(from)), wr)
				mu.Lock()
				runs = append(runs, wr)
				mu.Unlock()
				if wr.sum != nil && wr.err == nil {
					return
				}
				wr.sum = wr.checkpoint // what it had measured up to its last progress mark
				mu.Lock()
				triages++
				tooMany := triages > 12
				mu.Unlock()
				if tooMany {
					// every triage costs up to a minute; after twelve the picture is clear
					mu.Lock()
					excepted.Inc("worker_deaths_not_triaged_after_twelve")
					mu.Unlock()
					return
				}
				res := triage(self, o, e, base, wr, n, work, replayDir)
				mu.Lock()
				switch res.kind {
				case "violation":
					extraViol = append(extraViol, res.msg)
				case "excepted":
					excepted.Inc(res.why)
				default:
					infra++
					fmt.Printf("goatsim: INFRASTRUCTURE: worker %d: %s\n%s\n", shard, res.why, wr.stderr)
				}
				mu.Unlock()
				if res.rest != nil {
					mu.Lock()
					runs = append(runs, &workerRun{shard: shard, sum: res.rest})
					mu.Unlock()
				}
				fmt.Printf("goatsim: worker %d stopped at unit %d (%s: %s); the shard continues at unit %d\n", shard, res.msg.Unit, res.kind, res.why, res.next)
				if res.kind == "infra" || res.next <= from || shard >= n {
					return
				}
				from = res.next
			}
		}(i)
	}
	wg.Wait()

	// merge
	total := &Summary{Counters: Counters{}, Sigs: map[string]int{}}
	distinct := map[uint64]struct{}{}
	var viol []Msg
	var hashes []string
	for _, wr := range runs {
		viol = append(viol, wr.viol...)
		hashes = append(hashes, wr.hashes...)
		if wr.sum == nil {
			continue
		}
		s := wr.sum
		total.Units += s.Units
		total.Evaluations += s.Evaluations
		total.Nontrivial += s.Nontrivial
		total.SimTime += s.SimTime
		total.Steps += s.Steps
		total.Violations += s.Violations
		total.Counters.Merge(s.Counters)
		total.DistinctCap = total.DistinctCap || s.DistinctCap
		total.Truncated = total.Truncated || s.Truncated
		for k, v := range s.Sigs {
			total.Sigs[k] += v
		}
		for _, d := range s.Distinct {
			distinct[d] = struct{}{}
		}
		if len(total.Samples) < 4 {
			total.Samples = append(total.Samples, s.Samples...)
		}
	}
	viol = append(viol, extraViol...)
	total.Counters.Merge(excepted)
	if o.Hashes != "" {
		sort.Strings(hashes)
		os.WriteFile(o.Hashes, []byte(strings.Join(hashes, "\n")+"\n"), 0o644)
	}

	// verdict
	findings := loadFindings(o.VerifDir)
	reported := 0
	knownHit := map[string]bool{}
	seenSig := map[string]bool{}
	sort.Slice(viol, func(i, j int) bool {
		if viol[i].Unit != viol[j].Unit {
			return viol[i].Unit < viol[j].Unit
		}
		return viol[i].Sub < viol[j].Sub
	})
	for _, m := range viol {
		if m.Replay == "" {
			infra++
			fmt.Printf("goatsim: INFRASTRUCTURE: %s\n", m.Detail)
			continue
		}
		if strings.HasPrefix(m.Sig, "HARNESS|") {
			infra++
			fmt.Printf("goatsim: INFRASTRUCTURE: harness fault %s replay=%s\n", m.Detail, m.Replay)
			continue
		}
		rp, err := LoadReplay(m.Replay)
		if err == nil {
			if f := matchFinding(findings, rp); f != nil {
				if !knownHit[f.Text] {
					fmt.Printf("KNOWN-FINDING: property=%s %s\n", f.Property, f.Text)
					knownHit[f.Text] = true
				}
				continue
			}
		}
		if seenSig[m.Sig] {
			continue
		}
		seenSig[m.Sig] = true
		reported++
		fmt.Printf("VIOLATION property=%s replay=%s\n", o.Prop, m.Replay)
		fmt.Printf("  rule=%s\n", m.Detail)
	}
	// a signature counted by some worker but never written out (cap of 4
	// minimisations per worker) is still a violation
	for sig, cnt := range total.Sigs {
		if !seenSig[sig] && !strings.HasPrefix(sig, "HARNESS|") && !sigKnownOnly(sig, viol, findings) {
			seenSig[sig] = true
			reported++
			fmt.Printf("VIOLATION property=%s replay=(not minimised; signature %s seen %d times)\n", o.Prop, sig, cnt)
		}
	}

	wall := time.Since(start).Seconds()
	if !o.NoEvid {
		if err := writeEvidence(o, e, total, len(distinct), reported, knownHit, wall, n); err != nil {
			fmt.Fprintln(os.Stderr, "evidence:", err)
			infra++
		}
	}
	fmt.Printf("goatsim: %s %s: evaluations=%d nontrivial=%d distinct_nontrivial=%d violations=%d known=%d wall=%.1fs (%.0f runs/h)\n",
		o.Prop, o.Tier, total.Evaluations, total.Nontrivial, len(distinct), reported, len(knownHit), wall, float64(total.Evaluations)/wall*3600)
	for _, p := range e.Describe().ProbesWant {
		if total.Counters[p] == 0 {
			fmt.Printf("goatsim: note: probe %q stayed at zero in this run\n", p)
		}
	}
	if reported > 0 {
		// a violation that reproduced from its own replay file stands, whatever else went wrong
		return 1
	}
	if infra > 0 {
		return 2
	}
	if total.Evaluations == 0 {
		fmt.Println("goatsim: INFRASTRUCTURE: nothing was executed")
		return 2
	}
	return 0
}

// sigKnownOnly reports whether every written-out violation with this signature
// was matched by a known finding (so that the uncounted rest is not reported
// under a bare signature).
func sigKnownOnly(sig string, viol []Msg, findings []Finding) bool {
	any := false
	for _, m := range viol {
		if m.Sig != sig || m.Replay == "" {
			continue
		}
		any = true
		rp, err := LoadReplay(m.Replay)
		if err != nil || matchFinding(findings, rp) == nil {
			return false
		}
	}
	return any
}

type triageResult struct {
	kind string // violation | excepted | infra
	why  string
	msg  Msg
	next int      // first unit after the offending one (the shard continues there)
	rest *Summary // the careful re-run finished the shard: what it measured
}

var oomRe = regexp.MustCompile(`out of memory|cannot allocate memory|makeslice: len out of range`)

// triage re-runs a dead worker's shard from its last progress mark in careful
// mode (every plan announced and saved before it is executed), then re-runs
// the offending unit alone to confirm.
func triage(self string, o DriverOpts, e Engine, base []string, wr *workerRun, n int, work, replayDir string) triageResult {
	if wr.hang != nil {
		return triageHang(self, o, wr.hang)
	}
	careful := &workerRun{shard: wr.shard}
	cf := filepath.Join(work, fmt.Sprintf("careful-plan-%d.json", wr.shard))
	args := append(append([]string{}, base...), "--shard", fmt.Sprint(wr.shard), "--of", fmt.Sprint(n), "--from", fmt.Sprint(wr.lastUnit), "--careful", "--careful-file", cf)
	spawnWorker(self, o, args, careful)
	if careful.hang != nil {
		return triageHang(self, o, careful.hang)
	}
	if careful.err == nil && careful.sum != nil {
		if oomRe.MatchString(wr.stderr) {
			// memory exhaustion that a fresh process does not reproduce: garbage accumulated by
			// earlier runs plus one large (legitimate) allocation of a script. The careful run
			// has meanwhile finished the shard.
			return triageResult{kind: "excepted", why: "out_of_memory_not_reproducible_in_a_fresh_process", msg: Msg{Unit: wr.lastUnit}, rest: careful.sum, next: -1}
		}
		return triageResult{kind: "infra", why: "worker death did not reproduce in a careful re-run (flaky infrastructure?)"}
	}
	unit := careful.lastUnit
	planBytes, _ := os.ReadFile(cf)
	// confirm alone
	alone := &workerRun{}
	args = append(append([]string{}, base...), "--shard", "0", "--of", "1", "--from", fmt.Sprint(unit), "--to", fmt.Sprint(unit+1), "--careful", "--careful-file", cf)
	spawnWorker(self, o, args, alone)
	if alone.err == nil {
		if oomRe.MatchString(careful.stderr) {
			// memory exhaustion that depends on the garbage earlier runs left behind
			return triageResult{kind: "excepted", why: "out_of_memory_not_reproducible_in_a_fresh_process", msg: Msg{Unit: unit}, next: unit + 1}
		}
		return triageResult{kind: "infra", why: fmt.Sprintf("death at unit %d did not reproduce alone:\n%s", unit, careful.stderr)}
	}
	if b, err := os.ReadFile(cf); err == nil {
		planBytes = b
	}
	msg := Msg{Type: "violation", Unit: unit}
	if oomRe.MatchString(alone.stderr) {
		// is it the script's own allocation request (excepted), or do the stages that must
		// always terminate blow up by themselves?
		hp := filepath.Join(work, fmt.Sprintf("hang-%s-%d-0.json", o.Prop, unit))
		os.WriteFile(hp, planBytes, 0o644)
		if st := triageHang(self, o, &Msg{Unit: unit, Replay: hp}); st.kind != "excepted" {
			st.next = unit + 1
			return st
		}
		return triageResult{kind: "excepted", why: "fatal_out_of_memory_in_run_stage", msg: msg, next: unit + 1}
	}
	if o.Prop != "C03" {
		return triageResult{kind: "infra", why: fmt.Sprintf("the process died executing unit %d (a Go fatal error is property C03's subject, not %s's):\n%s", unit, o.Prop, alone.stderr)}
	}
	first := strings.SplitN(alone.stderr, "\n", 2)[0]
	rp := &Replay{Property: o.Prop, Engine: e.Name(), Seed: o.Seed, Tier: o.Tier, Unit: unit,
		Violation: Violation{Property: o.Prop, Rule: "C03/fatal", KeyKind: "process-death", Detail: first}, Plan: planBytes,
		Tail: strings.Split(alone.stderr, "\n")}
	if len(rp.Tail) > 40 {
		rp.Tail = rp.Tail[:40]
	}
	path, err := WriteReplay(replayDir, rp)
	if err != nil {
		return triageResult{kind: "infra", why: err.Error()}
	}
	msg.Replay, msg.Sig, msg.Detail = path, rp.Violation.Sig(), "C03/fatal: "+first
	return triageResult{kind: "violation", msg: msg, next: unit + 1}
}

// triageHang asks the engine-independent stage probe whether the stages that
// must terminate do terminate for the plan that hung.
func triageHang(self string, o DriverOpts, hang *Msg) triageResult {
	cmd := exec.Command(self, "stages", hang.Replay)
	var outb bytes.Buffer
	cmd.Stdout, cmd.Stderr = &outb, &outb
	done := make(chan error, 1)
	if err := cmd.Start(); err != nil {
		return triageResult{kind: "infra", why: err.Error()}
	}
	go func() { done <- cmd.Wait() }()
	why := ""
	select {
	case err := <-done:
		if err == nil {
			// The stages are fine, so the stall is in the run stage. With the instruction budget armed
			// a script can dispatch at most 200 000 instructions (milliseconds): give the unit 60 s
			// alone; if it still does not return, the VM (or a bundled native) is wedged inside one
			// instruction, which no script exhausts resources to deserve.
			if wedged := confirmWedge(self, o, hang); wedged != nil {
				return *wedged
			}
			return triageResult{kind: "excepted", why: "slow_script_over_watchdog", msg: Msg{Unit: hang.Unit}, next: hang.Unit + 1}
		}
		if !oomRe.MatchString(outb.String()) {
			return triageResult{kind: "infra", why: "stage probe failed: " + outb.String()}
		}
		why = "tokenize/parse/load/compile of a source <= 16 KiB ran out of memory (6 GiB) before any script code ran"
	case <-time.After(hangLimit * 2):
		cmd.Process.Kill()
		why = "tokenize/parse/load/compile of a source <= 16 KiB did not finish within 20 s: " + firstLines(outb.String(), 3)
	}
	if o.Prop != "C03" {
		return triageResult{kind: "infra", why: "a non-run stage did not complete (property C03's subject): " + hang.Replay}
	}
	b, _ := os.ReadFile(hang.Replay)
	rp := &Replay{Property: "C03", Engine: "hostsafe", Seed: o.Seed, Tier: o.Tier, Unit: hang.Unit, Sub: hang.Sub,
		Violation: Violation{Property: "C03", Rule: "C03/returns", KeyKind: "stage-does-not-complete", Detail: why}, Plan: b}
	path, err := WriteReplay(filepath.Join(o.VerifDir, "replays"), rp)
	if err != nil {
		return triageResult{kind: "infra", why: err.Error()}
	}
	return triageResult{kind: "violation", msg: Msg{Type: "violation", Unit: hang.Unit, Sub: hang.Sub, Replay: path, Sig: rp.Violation.Sig(), Detail: "C03/returns: " + why}, next: hang.Unit + 1}
}

func writeEvidence(o DriverOpts, e Engine, t *Summary, distinct, reported int, known map[string]bool, wall float64, workers int) error {
	info := e.Describe()
	faults := map[string]int64{}
	probes := map[string]int64{}
	outcomes := map[string]int64{}
	for _, k := range t.Counters.Keys() {
		v := t.Counters[k]
		switch {
		case strings.HasPrefix(k, "fault:"):
			faults[strings.TrimPrefix(k, "fault:")] = v
		case strings.HasPrefix(k, "outcome:"):
			outcomes[strings.TrimPrefix(k, "outcome:")] = v
		default:
			probes[k] = v
		}
	}
	var stuck []string
	for _, p := range info.ProbesWant {
		if t.Counters[p] == 0 {
			stuck = append(stuck, p)
		}
	}
	var kn []string
	for k := range known {
		kn = append(kn, k)
	}
	sort.Strings(kn)
	samples := make([]any, 0, len(t.Samples))
	for _, s := range t.Samples {
		samples = append(samples, s)
	}
	rule := info.Rule
	if t.DistinctCap {
		rule += " (distinct set capped per worker: the count is a lower bound)"
	}
	ev := map[string]any{
		"property_id": o.Prop,
		"tier":        o.Tier,
		"seed":        int64(o.Seed & 0x7fffffffffffffff),
		"level":       info.Level,
		"coverage": map[string]any{
			"evaluations":            t.Evaluations,
			"distinct_nontrivial":    distinct,
			"nontrivial_runs":        t.Nontrivial,
			"rule":                   rule,
			"samples":                samples,
			"units":                  t.Units,
			"runs_per_hour":          int64(float64(t.Evaluations) / wall * 3600),
			"simulated_time_s":       float64(t.SimTime) / 1e9,
			"vm_entry_calls":         t.Steps,
			"faults_fired":           faults,
			"probes":                 probes,
			"probes_stuck_at_zero":   stuck,
			"outcomes":               outcomes,
			"real_components":        info.Real,
			"stubbed_components":     info.Stubs,
			"known_findings_matched": kn,
			"workers":                workers,
			"truncated_by_deadline":  t.Truncated,
			"exhaustive":             false,
		},
		"assumptions": info.Assumes,
		"wall_s":      wall,
		"violations":  reported,
	}
	b, err := json.MarshalIndent(ev, "", " ")
	if err != nil {
		return err
	}
	dir := filepath.Join(o.VerifDir, "evidence")
	if err := os.MkdirAll(dir, 0o755); err != nil {
		return err
	}
	return os.WriteFile(filepath.Join(dir, o.Prop+".json"), b, 0o644)
}

// RunReplay re-executes a replay file twice in this process and reports
// whether the recorded violation still occurs.
func RunReplay(path string) int {
	rp, err := LoadReplay(path)
	if err != nil {
		fmt.Fprintln(os.Stderr, err)
		return 2
	}
	e := Lookup(rp.Property)
	if e == nil {
		fmt.Fprintf(os.Stderr, "unknown property %q\n", rp.Property)
		return 2
	}
	plan := e.NewPlan()
	if err := json.Unmarshal(rp.Plan, plan); err != nil {
		fmt.Fprintln(os.Stderr, "plan:", err)
		return 2
	}
	r1 := SafeExecute(e, plan, true)
	plan2 := e.NewPlan()
	json.Unmarshal(rp.Plan, plan2)
	r2 := SafeExecute(e, plan2, true)
	if r1.Hash != r2.Hash {
		fmt.Printf("goatsim: INFRASTRUCTURE: replay is not deterministic (%s vs %s)\n", r1.Hash, r2.Hash)
		return 2
	}
	fmt.Printf("goatsim: replay %s history_hash=%s (recorded %s) events=%d\n", path, r1.Hash, rp.Hash, r1.History.Len())
	tail := 40
	if v, err := strconv.Atoi(os.Getenv("GOATSIM_TAIL")); err == nil && v > 0 {
		tail = v
	}
	for _, l := range r1.History.Tail(tail) {
		fmt.Println("  ", l)
	}
	if hasSig(r1, rp.Violation.Sig()) {
		for _, v := range r1.Violations {
			if v.Sig() == rp.Violation.Sig() {
				fmt.Printf("VIOLATION property=%s replay=%s\n  rule=%s: %s\n", rp.Property, path, v.Rule, v.Detail)
				break
			}
		}
		return 1
	}
	if !r1.OK() {
		fmt.Printf("goatsim: the recorded violation no longer occurs, but another does: %s: %s\n", r1.Violations[0].Rule, r1.Violations[0].Detail)
		fmt.Printf("VIOLATION property=%s replay=%s\n", rp.Property, path)
		return 1
	}
	fmt.Println("goatsim: the recorded violation does not occur on this tree")
	return 0
}

// confirmWedge re-runs the stalled unit alone with a 60 s watchdog.
func confirmWedge(self string, o DriverOpts, hang *Msg) *triageResult {
	work := filepath.Dir(hang.Replay)
	cmd := exec.Command(self, "worker", "--prop", o.Prop, "--tier", o.Tier, "--seed", fmt.Sprint(o.Seed), "--work", work, "--replays", filepath.Join(o.VerifDir, "replays"),
		"--shard", "0", "--of", "1", "--from", fmt.Sprint(hang.Unit), "--to", fmt.Sprint(hang.Unit+1))
	cmd.Env = append(os.Environ(), "GOATSIM_HANG=60")
	var outb bytes.Buffer
	cmd.Stdout, cmd.Stderr = &outb, &outb
	err := cmd.Run()
	ee, ok := err.(*exec.ExitError)
	if !ok || ee.ExitCode() != 3 {
		return nil // it returned (or died another way) within the minute
	}
	if o.Prop != "C03" {
		return &triageResult{kind: "infra", why: "a unit did not return within 60 s although its instruction budget was armed (property C03's subject): " + hang.Replay}
	}
	b, _ := os.ReadFile(hang.Replay)
	why := "an entry point did not return within 60 s although the instruction budget (200 000) was armed and tokenize/parse/load/compile complete: the VM or a bundled native is stuck inside a single instruction"
	rp := &Replay{Property: "C03", Engine: "hostsafe", Seed: o.Seed, Tier: o.Tier, Unit: hang.Unit, Sub: hang.Sub,
		Violation: Violation{Property: "C03", Rule: "C03/returns", KeyKind: "wedged-in-one-instruction", Detail: why}, Plan: b}
	path, werr := WriteReplay(filepath.Join(o.VerifDir, "replays"), rp)
	if werr != nil {
		return &triageResult{kind: "infra", why: werr.Error()}
	}
	return &triageResult{kind: "violation", msg: Msg{Type: "violation", Unit: hang.Unit, Sub: hang.Sub, Replay: path, Sig: rp.Violation.Sig(), Detail: "C03/returns: " + why}, next: hang.Unit + 1}
}

func firstLines(s string, n int) string {
	ls := strings.Split(s, "\n")
	if len(ls) > n {
		ls = ls[:n]
	}
	return strings.Join(ls, " | ")
}

// StageProber is implemented by engines whose plans contain source text handed
// to Eval/Load: Stages runs only the stages that must always terminate.
type StageProber interface {
	Stages(plan any) error
}

// RunStages is the watchdog's stage probe (separate process, killed on timeout).
func RunStages(path string) int {
	lim := syscall.Rlimit{Cur: 6 << 30, Max: 6 << 30}
	_ = syscall.Setrlimit(syscall.RLIMIT_AS, &lim)
	base := filepath.Base(path)
	parts := strings.Split(base, "-")
	if len(parts) < 2 {
		fmt.Println("bad hang file name")
		return 2
	}
	e := Lookup(parts[1])
	if e == nil {
		fmt.Println("unknown engine for", base)
		return 2
	}
	sp, ok := e.(StageProber)
	if !ok {
		return 0
	}
	b, err := os.ReadFile(path)
	if err != nil {
		fmt.Println(err)
		return 2
	}
	plan := e.NewPlan()
	if err := json.Unmarshal(b, plan); err != nil {
		fmt.Println(err)
		return 2
	}
	if err := sp.Stages(plan); err != nil {
		fmt.Println(err)
		return 2
	}
	return 0
}
