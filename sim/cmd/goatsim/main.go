// goatsim: deterministic simulation with fault injection for goatlang.
//
//	goatsim run <ID> [--tier quick|thorough] [--seed N] [--workers N]
//	goatsim replay <file>
//	goatsim worker ...        (internal)
//	goatsim stages <planfile> (internal: stage probe for watchdog triage)
package main

import (
	"encoding/json"
	"flag"
	"fmt"
	"os"
	"runtime/pprof"
	"strconv"
	"time"

	"goatsim/core"
	_ "goatsim/engines"
)

func envSeed() uint64 {
	if s := os.Getenv("VERIF_SEED"); s != "" {
		if v, err := strconv.ParseUint(s, 10, 64); err == nil {
			return v
		}
		if v, err := strconv.ParseInt(s, 10, 64); err == nil {
			return uint64(v)
		}
	}
	return 1
}

func main() {
	if len(os.Args) < 2 {
		fmt.Fprintln(os.Stderr, "usage: goatsim run|replay|worker|stages ...")
		os.Exit(2)
	}
	switch os.Args[1] {
	case "run":
		fs := flag.NewFlagSet("run", flag.ExitOnError)
		tier := fs.String("tier", "", "quick or thorough (default $VERIF_TIER or quick)")
		seed := fs.Uint64("seed", envSeed(), "seed (default $VERIF_SEED or 1)")
		workers := fs.Int("workers", 0, "worker processes (default min(16, cores))")
		dir := fs.String("verif", "/verif", "verif directory")
		deadline := fs.Int("deadline", 0, "wall-clock cap in seconds (default per tier)")
		hashes := fs.String("hashes", "", "write per-run history hashes to this file")
		noev := fs.Bool("no-evidence", false, "do not write the evidence file")
		to := fs.Int("to", 0, "run only units [0,to)")
		if len(os.Args) < 3 {
			fmt.Fprintln(os.Stderr, "usage: goatsim run <ID> [flags]")
			os.Exit(2)
		}
		id := os.Args[2]
		fs.Parse(os.Args[3:])
		if *tier == "" {
			*tier = os.Getenv("VERIF_TIER")
		}
		if *tier == "" {
			*tier = "quick"
		}
		if *tier != "quick" && *tier != "thorough" {
			fmt.Fprintln(os.Stderr, "tier must be quick or thorough")
			os.Exit(2)
		}
		dl := time.Duration(*deadline) * time.Second
		if dl == 0 {
			dl = 150 * time.Second
			if *tier == "thorough" {
				dl = 45 * time.Minute
			}
		}
		os.Exit(core.RunDriver(core.DriverOpts{Prop: id, Tier: *tier, Seed: *seed, VerifDir: *dir, Workers: *workers, Deadline: dl, Hashes: *hashes, NoEvid: *noev, To: *to}))
	case "worker":
		fs := flag.NewFlagSet("worker", flag.ExitOnError)
		var o core.WorkerOpts
		fs.StringVar(&o.Prop, "prop", "", "")
		fs.StringVar(&o.Tier, "tier", "quick", "")
		fs.Uint64Var(&o.Seed, "seed", 1, "")
		fs.IntVar(&o.Shard, "shard", 0, "")
		fs.IntVar(&o.Of, "of", 1, "")
		fs.IntVar(&o.From, "from", 0, "")
		fs.IntVar(&o.To, "to", 0, "")
		fs.BoolVar(&o.Careful, "careful", false, "")
		fs.StringVar(&o.CarefulFile, "careful-file", "/tmp/goatsim-careful-plan.json", "")
		fs.BoolVar(&o.Hashes, "hashes", false, "")
		fs.StringVar(&o.WorkDir, "work", "/tmp", "")
		fs.StringVar(&o.ReplayDir, "replays", "/verif/replays", "")
		dl := fs.Int("deadline", 0, "")
		mem := fs.Uint64("mem", 6<<30, "address-space limit in bytes")
		prof := fs.String("cpuprofile", "", "")
		fs.Parse(os.Args[2:])
		if *prof != "" {
			f, _ := os.Create(*prof)
			pprof.StartCPUProfile(f)
			defer pprof.StopCPUProfile()
			o.Deadline = time.Duration(*dl) * time.Second
			o.MemLimit = *mem
			core.RunWorker(o)
			return
		}
		o.Deadline = time.Duration(*dl) * time.Second
		o.MemLimit = *mem
		os.Exit(core.RunWorker(o))
	case "replay":
		if len(os.Args) < 3 {
			fmt.Fprintln(os.Stderr, "usage: goatsim replay <file>")
			os.Exit(2)
		}
		os.Exit(core.RunReplay(os.Args[2]))
	case "stages":
		os.Exit(core.RunStages(os.Args[2]))
	case "show": // goatsim show <ID> <seed> <unit> [tier]: print every plan of a unit with its verdict and history
		e := core.Lookup(os.Args[2])
		seed, _ := strconv.ParseUint(os.Args[3], 10, 64)
		unit, _ := strconv.Atoi(os.Args[4])
		tier := "quick"
		if len(os.Args) > 5 {
			tier = os.Args[5]
		}
		n := 0
		e.RunUnit(seed, tier, unit, func(plan any) *core.Result {
			r := core.SafeExecute(e, plan, true)
			if n < 3 {
				b, _ := json.Marshal(plan)
				fmt.Printf("--- plan %d: %s\n", n, b)
				for _, l := range r.History.Tail(60) {
					fmt.Println("   ", l)
				}
				fmt.Printf("    abstract=%s nontrivial=%v violations=%v counters=%v\n", r.Abstract, r.Nontrivial, r.Violations, r.Counters)
			}
			n++
			return r
		})
		fmt.Println("plans in unit:", n)
	case "list":
		for _, id := range core.Engines() {
			e := core.Lookup(id)
			fmt.Printf("%s %s quick=%d thorough=%d\n", id, e.Name(), e.Units("quick"), e.Units("thorough"))
		}
	default:
		fmt.Fprintln(os.Stderr, "unknown command", os.Args[1])
		os.Exit(2)
	}
}
