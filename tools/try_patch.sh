#!/bin/sh
# try_patch.sh <dir-with-patch.diff-and-demo_test.go> <property-id> [tier]
# Confirms a seeded change in its own scratch worktree of /repo (never in /repo itself):
# (1) demo passes on the clean tree, (2) patch applies, builds, the existing suite passes,
# (3) demo fails with the patch, (4) the property's check is run against the patched worktree.
# Prints one line: SEEDED <dir> prop=.. clean_demo=[..] suite=[..] demo_with_patch=[..] check_exit=N rule=..
D=$(cd "$1" && pwd); ID="$2"; TIER="${3:-quick}"
export GOFLAGS=-mod=mod GOPROXY=off GOSUMDB=off GOTOOLCHAIN=local
VERIF=$(cd "$(dirname "$0")/.." && pwd)
WT=$(mktemp -d /tmp/goatsim-wt.XXXXXX); OUT=$(mktemp -d /tmp/goatsim-out.XXXXXX)
cleanup() { git -C /repo worktree remove --force "$WT" >/dev/null 2>&1; rm -rf "$WT" "$OUT"; }
trap cleanup EXIT
rmdir "$WT"; git -C /repo worktree add -q --detach "$WT" HEAD || exit 2
cd "$WT" || exit 2
cp "$D/demo_test.go" zz_demo_test.go
clean_demo=$(go test -vet=off -count=1 -run 'TestDemo' . 2>&1 | tail -1)
git apply "$D/patch.diff" || { echo "SEEDED $D patch does not apply"; exit 2; }
build=$(go build ./... 2>&1 | head -3)
demo=$(go test -vet=off -count=1 -run 'TestDemo' . 2>&1 | tail -1)
rm -f zz_demo_test.go
suite=$(go test -vet=off -count=1 ./... 2>&1 | grep -v "no test files" | tail -1)
mkdir -p "$OUT/evidence"; cp "$VERIF/known_findings.json" "$OUT/" 2>/dev/null
out=$(VERIF_REPO="$WT" VERIF_BIN="$OUT/goatsim" VERIF_OUT="$OUT" "$VERIF/check.sh" "$ID" "$TIER" 2>&1); rc=$?
rule=$(echo "$out" | grep -m1 "^  rule=" | cut -c1-300)
echo "$out" | tail -1
echo "SEEDED $D prop=$ID clean_demo=[$clean_demo] build=[$build] suite=[$suite] demo_with_patch=[$demo] check_exit=$rc $rule"
