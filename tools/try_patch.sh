#!/bin/sh
# try_patch.sh <dir-with-patch.diff-and-demo_test.go> <property-id> [tier]
# Confirms a seeded change: (1) demo passes on the clean tree, (2) patch applies, builds, the
# existing suite passes, (3) demo fails with the patch, (4) runs the property's check, then
# reverts /repo. Prints one summary line: SEEDED <dir> suite=<ok|FAIL> demo=<fails|passes> check=<exit>
D="$1"; ID="$2"; TIER="${3:-quick}"
export GOFLAGS=-mod=mod GOPROXY=off GOSUMDB=off GOTOOLCHAIN=local
VERIF=$(cd "$(dirname "$0")/.." && pwd)
cd /repo || exit 2
[ -n "$(git status --porcelain)" ] && { echo "/repo not clean"; exit 2; }
cleanup() { git -C /repo checkout -q -- . ; rm -f /repo/zz_demo_test.go; }
trap cleanup EXIT
cp "$D/demo_test.go" /repo/zz_demo_test.go
clean_demo=$(go test -vet=off -count=1 -run 'TestDemo' . 2>&1 | tail -1)
git apply "$D/patch.diff" || { echo "SEEDED $D patch does not apply"; exit 2; }
build=$(go build ./... 2>&1 | head -3)
demo=$(go test -vet=off -count=1 -run 'TestDemo' . 2>&1 | tail -1)
rm -f /repo/zz_demo_test.go
suite=$(go test -vet=off -count=1 ./... 2>&1 | grep -v "no test files" | tail -1)
out=$("$VERIF/check.sh" "$ID" "$TIER" 2>&1); rc=$?
echo "$out" | grep -A1 "^VIOLATION\|INFRASTRUCTURE" | head -6
echo "$out" | tail -1
echo "SEEDED $D prop=$ID clean_demo=[$clean_demo] build=[$build] suite=[$suite] demo_with_patch=[$demo] check_exit=$rc"
