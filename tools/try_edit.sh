#!/bin/sh
# try_edit.sh <name> <python-snippet-editing-files-in-cwd> [ids...]
# Applies a (behaviour-preserving) edit to a scratch worktree of /repo and runs the quick checks
# against it: every check must stay silent (false-alarm control, DESIGN.md 6.3).
NAME="$1"; EDIT="$2"; shift 2; IDS="${*:-C03 C10 C15 C17 C18 C19 C20}"
export GOFLAGS=-mod=mod GOPROXY=off GOSUMDB=off GOTOOLCHAIN=local
VERIF=$(cd "$(dirname "$0")/.." && pwd)
WT=$(mktemp -d /tmp/goatsim-wt.XXXXXX); OUT=$(mktemp -d /tmp/goatsim-out.XXXXXX)
cleanup() { git -C /repo worktree remove --force "$WT" >/dev/null 2>&1; rm -rf "$WT" "$OUT"; }
trap cleanup EXIT
rmdir "$WT"; git -C /repo worktree add -q --detach "$WT" HEAD || exit 2
cd "$WT" && python3 -c "$EDIT" || { echo "EDIT $NAME failed to apply"; exit 2; }
go build ./... || { echo "EDIT $NAME does not build"; exit 2; }
mkdir -p "$OUT/evidence"; cp "$VERIF/known_findings.json" "$OUT/"
for ID in $IDS; do
  out=$(VERIF_REPO="$WT" VERIF_BIN="$OUT/goatsim" VERIF_OUT="$OUT" "$VERIF/check.sh" "$ID" quick 2>&1); rc=$?
  echo "EDIT $NAME $ID exit=$rc $(echo "$out" | grep -m1 '^  rule=' | cut -c1-200)"
done
