#!/usr/bin/env python3
# Imports a sub-agent's deliverables (/tmp/wtout/<id><wave>/m1..3) as seeded/<ID>-<wave><k>/ with a pending meta.json.
import json, os, shutil, subprocess, sys
prop, wave = sys.argv[1], sys.argv[2]          # e.g. C20 e
src = f"/tmp/wtout/{prop.lower()}{wave}"
head = subprocess.run(["git", "-C", "/repo", "rev-parse", "--short", "HEAD"], capture_output=True, text=True).stdout.strip()
for k in "123":
    d = f"{src}/m{k}"
    if not os.path.exists(f"{d}/patch.diff"):
        continue
    dst = f"/verif/seeded/{prop}-{wave}{k}"
    os.makedirs(dst, exist_ok=True)
    for f in ("patch.diff", "demo_test.go", "notes.md"):
        if os.path.exists(f"{d}/{f}"):
            shutil.copy(f"{d}/{f}", f"{dst}/{f}")
    first = open(f"{dst}/notes.md").readline().strip("# \n") if os.path.exists(f"{dst}/notes.md") else ""
    meta = {"id": f"{prop}-{wave}{k}", "property": prop,
            "origin": f"sub-agent wave {ord(wave)-96} (given only the property text, the trigger lists of earlier waves to avoid, and a scratch worktree of /repo at {head})",
            "needs_to_manifest": first, "confirmed": "pending", "first_run": "pending"}
    json.dump(meta, open(f"{dst}/meta.json", "w"), indent=1)
    print("imported", dst)
