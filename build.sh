#!/bin/sh
# Build goatsim from /verif/sim against /repo's current working tree with the verif hooks on.
# Exit 2 on any build trouble (never a VIOLATION).
set -e
export GOFLAGS=-mod=mod GOPROXY=off GOSUMDB=off GOTOOLCHAIN=local CGO_ENABLED=0
cd /verif/sim
cp /repo/go.sum go.sum 2>/dev/null || true
mkdir -p /verif/bin
go build -tags verif -o /verif/bin/goatsim ./cmd/goatsim || { echo "goatsim: INFRASTRUCTURE: build failed" >&2; exit 2; }
