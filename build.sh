#!/bin/sh
# Build goatsim from ./sim (next to this script) against /repo's current working tree with the
# verif hooks on. Exit 2 on any build trouble (never a VIOLATION).
DIR=$(cd "$(dirname "$0")" && pwd)
export GOFLAGS=-mod=mod GOPROXY=off GOSUMDB=off GOTOOLCHAIN=local CGO_ENABLED=0
cd "$DIR/sim" || exit 2
cp /repo/go.sum go.sum 2>/dev/null || true
mkdir -p "$DIR/bin"
go build -tags verif -o "$DIR/bin/goatsim" ./cmd/goatsim || { echo "goatsim: INFRASTRUCTURE: build failed" >&2; exit 2; }
