#!/bin/sh
# Build goatsim from ./sim (next to this script) against the goatlang working tree with the
# verif hooks on. The tree is /repo unless VERIF_REPO names another checkout (used only to try
# seeded changes in scratch worktrees, never by the registered checks). Exit 2 on build trouble.
DIR=$(cd "$(dirname "$0")" && pwd)
REPO="${VERIF_REPO:-/repo}"
BIN="${VERIF_BIN:-$DIR/bin/goatsim}"
export GOFLAGS=-mod=mod GOPROXY=off GOSUMDB=off GOTOOLCHAIN=local CGO_ENABLED=0
cd "$DIR/sim" || exit 2
mkdir -p "$(dirname "$BIN")"
if [ "$REPO" = /repo ]; then
  cp /repo/go.sum go.sum 2>/dev/null || true
  go build -tags verif -o "$BIN" ./cmd/goatsim || { echo "goatsim: INFRASTRUCTURE: build failed" >&2; exit 2; }
else
  MOD=$(mktemp /tmp/goatsim-mod.XXXXXX) || exit 2
  sed "s|=> /repo|=> $REPO|" go.mod > "$MOD.mod"; cp "$REPO/go.sum" "$MOD.sum" 2>/dev/null || cp go.sum "$MOD.sum"
  go build -modfile="$MOD.mod" -tags verif -o "$BIN" ./cmd/goatsim; rc=$?
  rm -f "$MOD" "$MOD.mod" "$MOD.sum"
  [ $rc -eq 0 ] || { echo "goatsim: INFRASTRUCTURE: build failed" >&2; exit 2; }
fi
