#!/bin/sh
# check.sh <property-id> [quick|thorough]
# Rebuilds goatsim against /repo's current working tree (hooks on) and runs one check.
# exit 0: property held on everything explored; 1: VIOLATION line printed; 2: infrastructure trouble.
DIR=$(cd "$(dirname "$0")" && pwd)
ID="$1"; TIER="${2:-${VERIF_TIER:-quick}}"
"$DIR/build.sh" || exit 2
BIN="${VERIF_BIN:-$DIR/bin/goatsim}"
[ -n "$VERIF_REPO" ] && export GOATSIM_REPO="$VERIF_REPO"
exec "$BIN" run "$ID" --tier "$TIER" --verif "${VERIF_OUT:-$DIR}" $VERIF_EXTRA
