#!/bin/sh
# Determinism self-test (DESIGN.md 6.1): every engine, same VERIF_SEED, full history hashes
# diffed across worker counts 1/4/16 and GOMAXPROCS 1/4/16, plus N same-seed single processes.
# usage: determinism.sh [units-per-engine] [same-seed-processes]
DIR=$(cd "$(dirname "$0")/.." && pwd)
UNITS=${1:-400}; REPS=${2:-30}
"$DIR/build.sh" || exit 2
W=$(mktemp -d /tmp/goatsim-det.XXXXXX); trap 'rm -rf "$W"' EXIT
fail=0
for ID in C03 C10 C15 C17 C18 C19 C20; do
  U=$UNITS; [ $ID = C20 ] && U=$((UNITS/10+5))
  for cfg in "1 1" "4 4" "16 16" "16 1" "1 16"; do
    set -- $cfg
    GOATSIM_PROCS=$2 "$DIR/bin/goatsim" run $ID --seed 7 --workers $1 --to $U --hashes "$W/$ID-$1-$2.h" --no-evidence --verif "$DIR" > "$W/$ID-$1-$2.log" 2>&1
    rc=$?; [ $rc -ne 0 ] && { echo "$ID workers=$1 procs=$2: exit $rc"; tail -3 "$W/$ID-$1-$2.log"; fail=1; }
  done
  ref="$W/$ID-1-1.h"; n=$(wc -l < "$ref")
  for f in "$W"/$ID-*.h; do cmp -s "$ref" "$f" || { echo "NONDETERMINISTIC: $ID $(basename $f) differs from $(basename $ref)"; diff "$ref" "$f" | head -3; fail=1; }; done
  # many same-seed processes on a small range
  i=0; while [ $i -lt $REPS ]; do
    "$DIR/bin/goatsim" run $ID --seed 7 --workers 1 --to $((U/8+2)) --hashes "$W/$ID-rep-$i.h" --no-evidence --verif "$DIR" >/dev/null 2>&1 &
    i=$((i+1)); [ $((i%16)) -eq 0 ] && wait
  done; wait
  for f in "$W"/$ID-rep-*.h; do cmp -s "$W/$ID-rep-0.h" "$f" || { echo "NONDETERMINISTIC: $ID $(basename $f)"; fail=1; }; done
  echo "$ID: $n history hashes identical across 5 worker/GOMAXPROCS configurations; $REPS same-seed processes identical ($(wc -l < "$W/$ID-rep-0.h") hashes each)"
done
[ $fail -eq 0 ] && echo "determinism self-test: OK" || { echo "determinism self-test: FAILED"; exit 1; }
