#!/bin/sh
# Runs every check's thorough tier once with the given seed (default 11); prints one line each.
DIR=$(cd "$(dirname "$0")/.." && pwd)
SEED=${1:-11}
for ID in ${THOROUGH_ORDER:-C17 C15 C20 C19 C10 C18 C03}; do
  VERIF_SEED=$SEED "$DIR/check.sh" $ID thorough > "$DIR/.thorough-$ID-$SEED.log" 2>&1; rc=$?
  echo "$ID seed=$SEED exit=$rc $(grep 'goatsim: C' "$DIR/.thorough-$ID-$SEED.log" | tail -1)"
  grep -A1 "^VIOLATION\|INFRASTRUCTURE" "$DIR/.thorough-$ID-$SEED.log" | head -12
done
